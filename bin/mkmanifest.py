#!/usr/bin/env python3
"""Regenerates MANIFEST.json from specs/props/*.json (claimed) and specs/not_applicable.json."""
import json, os, glob, subprocess
root = os.path.dirname(os.path.dirname(os.path.abspath(__file__)))
props = [json.loads(l) for l in open(os.path.join(root, 'properties.jsonl'))]
na = json.load(open(os.path.join(root, 'specs', 'not_applicable.json')))
claimed = {}
for f in sorted(glob.glob(os.path.join(root, 'specs', 'props', 'C*.json'))):
    s = json.load(open(f))
    if s.get('claimed', True):
        claimed[s['id']] = s
hooks = subprocess.run(['git', '-C', '/repo', 'log', '--format=%h %s'], capture_output=True, text=True).stdout.splitlines()
hook_commits = [l.split()[0] for l in hooks if 'verif hooks' in l]
checks = []
for p in props:
    i = p['id']
    if i not in claimed:
        continue
    s = claimed[i]
    und = s.get('undecided_clauses', [])
    checks.append({
        "property_id": i,
        "quick_cmd": f"./bin/verif check {i} --tier quick",
        "thorough_cmd": f"./bin/verif check {i} --tier thorough",
        "evidence_file": f"evidence/{i}.json",
        "replay_cmd_template": "./bin/verif replay {path}",
        "engine": "govc",
        "level_claimed": {
            "category": "proof",
            "text": s.get('level_text', "Every obligation generated from the contracts of the listed functions (postconditions, call-site preconditions, loop invariants, frame conditions, run-time safety) is discharged by an SMT solver for all inputs, on the SSA of /repo's current working tree; the claim is 'these obligations, under the listed trusted base', not the whole statement."),
            "design_ref": s.get('design_ref', f"DESIGN.md section 3 ({i})")
        },
        "level_note": "Trusted: go/ssa, the self-written VC generator, the SMT solvers, assumed specs of stdlib/third-party/pluggable code listed in evidence.assumed_specs, mathematical integers, sequential semantics. Not decided: " + "; ".join(und),
        "technique": s.get('technique', "contract-based deductive verification: weakest-precondition VCs over go/ssa with //@ contracts, discharged by z3/cvc5")
    })
m = {
    "version": 1,
    "setup_cmd": "./bin/setup.sh",
    "hooks": {
        "guard": "verif",
        "enable": "contract files pkg/*/zz_verif_contracts.go carry '//go:build verif' and are comment-only; govc loads /repo with -tags=verif",
        "baseline_off_cmd": "cd /repo && go test -mod=mod -vet=off -count=1 -timeout 25m ./...",
        "source_commits": hook_commits,
        "add_only": True
    },
    "engines": [{"name": "govc", "path": "govc", "serves_properties": sorted(claimed), "kind_free_text": "self-written verification-condition generator over go/ssa of /repo's working tree; contracts in //@ comment files (build tag verif) and assumed specs in /verif/specs; obligations discharged by z3 4.8.12 / z3 5.1.0 / cvc5 1.0"}],
    "checks": checks,
    "notes": "All checks are contract-based deductive verification of the real code (see DESIGN.md). known_findings.json lists genuine defects (fixed ones suppress nothing).",
    "not_applicable": [{"property_id": p['id'], "reason": na.get(p['id'], "check not built yet")} for p in props if p['id'] not in claimed]
}
json.dump(m, open(os.path.join(root, 'MANIFEST.json'), 'w'), indent=1)
print("claimed:", sorted(claimed), "n/a:", len(m['not_applicable']))

#!/bin/bash
# Builds govc from the sources (and vendored x/tools) under /verif/govc. Offline.
set -e
cd "$(dirname "$0")/../govc"
export GOFLAGS=-mod=vendor GOPROXY=off GOTOOLCHAIN=local GOWORK=off
go1.26.8 build -o ../bin/govc .
echo "govc built"

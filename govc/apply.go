package main

import (
	"fmt"
	"go/ast"
	"go/token"
	"go/types"
	"strings"

	"golang.org/x/tools/go/ssa"
)

// paramNames returns the names usable in a contract for the parameters of fn / sig
// (receiver first).
func paramNames(fn *ssa.Function, sig *types.Signature, ct *FuncContract) []string {
	if ct != nil && len(ct.Params) > 0 {
		return ct.Params
	}
	var names []string
	if fn != nil && len(fn.Params) > 0 {
		for _, p := range fn.Params {
			names = append(names, p.Name())
		}
		return names
	}
	if sig.Recv() != nil {
		n := sig.Recv().Name()
		if n == "" || n == "_" {
			n = "self"
		}
		names = append(names, n)
	}
	for i := 0; i < sig.Params().Len(); i++ {
		n := sig.Params().At(i).Name()
		if n == "" || n == "_" {
			n = fmt.Sprintf("arg%d", i)
		}
		names = append(names, n)
	}
	return names
}

func paramTypes(fn *ssa.Function, sig *types.Signature) []types.Type {
	var ts []types.Type
	if fn != nil && len(fn.Params) > 0 {
		for _, p := range fn.Params {
			ts = append(ts, p.Type())
		}
		return ts
	}
	if sig.Recv() != nil {
		ts = append(ts, sig.Recv().Type())
	}
	for i := 0; i < sig.Params().Len(); i++ {
		ts = append(ts, sig.Params().At(i).Type())
	}
	return ts
}

func pkgOfFunc(fn *ssa.Function) *types.Package {
	if fn == nil {
		return nil
	}
	if fn.Pkg != nil {
		return fn.Pkg.Pkg
	}
	if fn.Object() != nil {
		return fn.Object().Pkg()
	}
	if fn.Parent() != nil {
		return pkgOfFunc(fn.Parent())
	}
	return nil
}

func (vc *VC) callEnv(fn *ssa.Function, sig *types.Signature, ct *FuncContract, args []Term, st, old *State, where string) *Env {
	env := &Env{vc: vc, st: st, old: old, names: map[string]cval{}, where: where, pkg: pkgOfFunc(fn)}
	names := paramNames(fn, sig, ct)
	tys := paramTypes(fn, sig)
	for i, n := range names {
		if i < len(args) && i < len(tys) {
			env.names[n] = cval{args[i], vc.ctOf(tys[i])}
			if i == 0 && sig.Recv() != nil {
				env.names["self"] = env.names[n]
			}
		}
	}
	// free variables of closures
	return env
}

func (vc *VC) bindResults(env *Env, sig *types.Signature, res []Term) {
	n := sig.Results().Len()
	for i := 0; i < n && i < len(res); i++ {
		rt := sig.Results().At(i).Type()
		cv := cval{res[i], vc.ctOf(rt)}
		if name := sig.Results().At(i).Name(); name != "" && name != "_" {
			env.names[name] = cv
		}
		env.names[fmt.Sprintf("result%d", i)] = cv
		if i == 0 {
			env.names["result"] = cv
		}
		if i == n-1 && isErrorType(rt) {
			if _, ok := env.names["err"]; !ok {
				env.names["err"] = cv
			}
		}
	}
}

func (vc *VC) reportEnvErrors(env *Env) {
	for _, e := range env.err {
		vc.errorf("contract: %s", e)
	}
	env.err = nil
}

func (fr *Frame) checkRequires(st *State, call ssa.CallInstruction, fn *ssa.Function, ct *FuncContract, args []Term) {
	vc := fr.vc
	sig := call.Common().Signature()
	if fn != nil {
		sig = fn.Signature
	}
	env := vc.callEnv(fn, sig, ct, args, st, nil, "requires of "+ct.Key)
	env.lenient = true
	for _, cl := range ct.Requires {
		g := env.boolTerm(cl.Expr)
		vc.oblig(fr, st, "pre", shortName(ct.Key)+"."+cl.Label, "", g, call.Pos())
	}
	vc.reportEnvErrors(env)
}

// applyContract: modular call — assert requires, havoc modifies, assume ensures.
func (fr *Frame) applyContract(st *State, call ssa.CallInstruction, fn *ssa.Function, ct *FuncContract, args, bindings []Term) []Term {
	vc := fr.vc
	sig := fn.Signature
	fr.checkRequires(st, call, fn, ct, args)
	if ct.IsExtern {
		vc.Assumed["assumed external spec: "+ct.Key] = true
	} else if ct.Trusted {
		vc.Assumed["trusted (unchecked) contract of module function: "+ct.Key] = true
	}
	old := st.clone()
	fr.applyModifies(st, old, call, fn, sig, ct, args)
	var res []Term
	for i := 0; i < sig.Results().Len(); i++ {
		rs := vc.sortOf(sig.Results().At(i).Type())
		r := vc.sc.Fresh(fr.prefix+"r_"+shortName(ct.Key), rs)
		vc.older(st, r, rs)
		vc.structResult(st, r, sig.Results().At(i).Type())
		res = append(res, r)
	}
	env := vc.callEnv(fn, sig, ct, args, st, old, "ensures of "+ct.Key)
	vc.bindResults(env, sig, res)
	for _, cl := range ct.Ensures {
		if cl.UsesCallres {
			continue // speaks about the callee's internal calls: nothing the caller can use
		}
		vc.sc.Assume(st.reach, env.boolTerm(cl.Expr))
	}
	vc.reportEnvErrors(env)
	vc.recordCallSyms(ct.Key, sig, res)
	for i := 0; i < sig.Results().Len(); i++ {
		if isErrorType(sig.Results().At(i).Type()) && !ct.IsExtern {
			vc.contractErrs[res[i]] = true
		}
	}
	return res
}

func (vc *VC) recordCallSyms(key string, sig *types.Signature, res []Term) {
	if !strings.Contains(key, "#") {
		// also addressable by ordinal: key#1, key#2, ...
		if vc.callCount == nil {
			vc.callCount = map[string]int{}
		}
		vc.callCount[key]++
		vc.recordCallSyms(fmt.Sprintf("%s#%d", key, vc.callCount[key]), sig, res)
	}
	if _, ok := vc.callSyms[key]; ok {
		return // first call only
	}
	if vc.callReach == nil {
		vc.callReach = map[string]Term{}
	}
	vc.callReach[key] = vc.curReach
	vc.callSyms[key] = res
	var cts []CT
	for i := 0; i < sig.Results().Len(); i++ {
		cts = append(cts, vc.ctOf(sig.Results().At(i).Type()))
	}
	if vc.callSymTypes == nil {
		vc.callSymTypes = map[string][]CT{}
	}
	vc.callSymTypes[key] = cts
}

func (fr *Frame) applyIfaceContract(st *State, call ssa.CallInstruction, m *types.Func, ct *FuncContract, recv Term, args []Term) []Term {
	vc := fr.vc
	sig := m.Type().(*types.Signature)
	all := append([]Term{recv}, args...)
	env0 := vc.callEnv(nil, sig, ct, all, st, nil, "requires of "+ct.Key)
	env0.lenient = true
	for _, cl := range ct.Requires {
		g := env0.boolTerm(cl.Expr)
		vc.oblig(fr, st, "pre", shortName(ct.Key)+"."+cl.Label, "", g, call.Pos())
	}
	vc.reportEnvErrors(env0)
	vc.Assumed["assumed interface contract: "+ct.Key] = true
	old := st.clone()
	if ct.Pure {
		res := fr.pureMethod(st, m, recv, args)
		env := vc.callEnv(nil, sig, ct, all, st, old, "ensures of "+ct.Key)
		vc.bindResults(env, sig, res)
		for _, cl := range ct.Ensures {
			vc.sc.Assume(st.reach, env.boolTerm(cl.Expr))
		}
		vc.reportEnvErrors(env)
		return res
	}
	if ct.Modifies == nil {
		clk := vc.bumpClock(st)
		vc.havocOS(st, recv, call.Common().Value.Type())
		fr.havocArgs(st, call.Common().Args, args, false, clk)
	} else {
		fr.applyModifies(st, old, call, nil, sig, ct, all)
	}
	var res []Term
	for i := 0; i < sig.Results().Len(); i++ {
		rs := vc.sortOf(sig.Results().At(i).Type())
		r := vc.sc.Fresh(fr.prefix+"r_"+m.Name(), rs)
		vc.older(st, r, rs)
		vc.structResult(st, r, sig.Results().At(i).Type())
		res = append(res, r)
	}
	env := vc.callEnv(nil, sig, ct, all, st, old, "ensures of "+ct.Key)
	vc.bindResults(env, sig, res)
	for _, cl := range ct.Ensures {
		vc.sc.Assume(st.reach, env.boolTerm(cl.Expr))
	}
	vc.reportEnvErrors(env)
	fr.assumeIdiom(st, sig, res, ct.Key)
	vc.recordCallSyms(ct.Key, sig, res)
	return res
}

// applyModifies havocs what the contract lists (or the default for unspecified frames).
func (fr *Frame) applyModifies(st, old *State, call ssa.CallInstruction, fn *ssa.Function, sig *types.Signature, ct *FuncContract, args []Term) {
	vc := fr.vc
	if ct.Pure {
		vc.bumpClock(st) // the callee may allocate (fresh results)
		return
	}
	clk := vc.bumpClock(st)
	if !ct.IsExtern {
		// a module function with an unspecified (or unchecked) frame, or one that lists the flag, may
		// have called the storage; an explicit frame without the flag is checked on the callee's body
		if ct.Modifies == nil || ct.Unframed || listsStorageFlag(ct) {
			vc.mayRaiseStorageFlag(st)
		}
	}
	if ct.Modifies == nil {
		// unspecified frame: default summary
		cargs := call.Common().Args
		a2 := args
		if call.Common().IsInvoke() {
			a2 = args[1:]
		}
		fr.havocArgs(st, cargs, a2, false, clk)
		return
	}
	env := vc.callEnv(fn, sig, ct, args, old, nil, "modifies of "+ct.Key)
	for _, loc := range ct.Modifies {
		fr.havocLoc(st, env, loc, call.Pos())
	}
	vc.reportEnvErrors(env)
	if ct.Unframed {
		// the listed locations plus the default effect on the arguments
		cargs := call.Common().Args
		a2 := args
		if call.Common().IsInvoke() {
			a2 = args[1:]
		}
		fr.havocArgs(st, cargs, a2, false, clk)
	}
}

// havocLoc havocs one location expression of a modifies clause (evaluated in the pre-state).
func (fr *Frame) havocLoc(st *State, env *Env, loc *Expr, pos token.Pos) {
	vc := fr.vc
	// ghost variables / maps
	if loc.Op == "id" {
		if g, ok := vc.C.Ghosts[loc.Name]; ok {
			key := "G:" + g.Name
			if g.IsMap {
				kt, vt := env.resolveTypeName(g.Key), env.resolveTypeName(g.Type)
				vc.getMem(st, key, "(Array "+kt.Sort+" "+vt.Sort+")")
			} else {
				vc.getMem(st, key, env.resolveTypeName(g.Type).Sort)
			}
			st.mem[key] = vc.newMemVersion(key)
			return
		}
	}
	if loc.Op == "index" && loc.X.Op == "id" {
		if g, ok := vc.C.Ghosts[loc.X.Name]; ok && g.IsMap {
			key := "G:" + g.Name
			kt, vt := env.resolveTypeName(g.Key), env.resolveTypeName(g.Type)
			k := env.eval(loc.Args[0])
			if k.ct.Sort != kt.Sort && kt.Sort == "Val" && k.ct.T != nil {
				k = cval{vc.box(k.t, k.ct.T), kt}
			}
			m := vc.getMem(st, key, "(Array "+kt.Sort+" "+vt.Sort+")")
			nm := vc.newMemVersion(key)
			fresh := vc.sc.Fresh("ghost", vt.Sort)
			vc.sc.Def(Eq(nm, sx("store", m, k.t, fresh)))
			st.mem[key] = nm
			return
		}
	}
	if loc.Op == "call" && loc.Name == "os" && len(loc.Args) == 1 {
		v := env.eval(loc.Args[0])
		vc.havocOS(st, v.t, v.ct.T)
		return
	}
	if loc.Op == "call" && loc.Name == "elems" && len(loc.Args) == 1 {
		v := env.eval(loc.Args[0])
		if v.ct.T != nil {
			if sl, ok := types.Unalias(v.ct.T).Underlying().(*types.Slice); ok {
				keys := map[string]types.Type{}
				vc.locKeys(sl.Elem(), keys)
				for _, k := range sortedKeys(keys) {
					kt := keys[k]
					base := vc.sptr(v.t)
					fr.frameCheckRoot(st, base, "elems("+loc.Args[0].String()+")", pos)
					vc.havoc(st, k, "(Array Ref "+vc.sortOf(kt)+")", func(a Term) Term { return Eq(sx("root", a), sx("root", base)) })
				}
				return
			}
		}
	}
	if loc.Op == "call" && loc.Name == "target" && len(loc.Args) == 1 {
		// the object a boxed pointer (decode target passed as `any`) points to, deeply
		v := env.eval(loc.Args[0])
		if bi, ok := vc.boxes[v.t]; ok {
			if pt, ok := typesPointerElem(bi.t); ok {
				fr.frameCheckRoot(st, bi.inner, "target("+loc.Args[0].String()+")", pos)
				before := st.clone()
				// objects the callee allocates are born at or after the call and before its return
				clk := vc.bumpClock(st)
				vc.havocPointee(st, bi.inner, pt, true, clk)
				vc.assumeLinkedFresh(st, before, bi.inner, pt, clk)
				return
			}
		}
		vc.havocOS(st, v.t, nil)
		vc.Abstracted["decode target of statically unknown type (abstract state havoced)"] = true
		return
	}
	if loc.Op == "call" && loc.Name == "deep" && len(loc.Args) == 1 {
		v := env.eval(loc.Args[0])
		if v.ct.T != nil {
			if pt, ok := types.Unalias(v.ct.T).Underlying().(*types.Pointer); ok {
				fr.frameCheckRoot(st, v.t, "deep("+loc.Args[0].String()+")", pos)
				vc.havocPointee(st, v.t, pt.Elem(), true, st.clk)
				return
			}
		}
	}
	if loc.Op == "unary" && loc.Name == "*" {
		v := env.eval(loc.X)
		if v.ct.T != nil {
			if pt, ok := types.Unalias(v.ct.T).Underlying().(*types.Pointer); ok {
				fr.frameCheckRoot(st, v.t, "*"+loc.X.String(), pos)
				vc.havocPointee(st, v.t, pt.Elem(), false, st.clk)
				return
			}
		}
		env.errorf("modifies *%s: not a pointer", loc.X)
		return
	}
	addr, t, ok := env.addrOf(loc)
	if !ok {
		return
	}
	fr.frameCheckAddr(st, addr, loc.String(), pos)
	keys := map[string]types.Type{}
	vc.locKeys(t, keys)
	var leaves []leafLoc
	vc.leafLocs(t, func(e Term) Term { return e }, &leaves)
	// one havoc per memory key (several leaves of a struct-valued location may share a key)
	byKey := map[string][]Term{}
	sorts := map[string]string{}
	var order []string
	for _, lf := range leaves {
		if _, ok := byKey[lf.key]; !ok {
			order = append(order, lf.key)
		}
		byKey[lf.key] = append(byKey[lf.key], lf.addr(addr))
		sorts[lf.key] = lf.sort
	}
	for _, k := range order {
		as := byKey[k]
		vc.havoc(st, k, "(Array Ref "+sorts[k]+")", func(x Term) Term {
			var ds []Term
			for _, a := range as {
				ds = append(ds, Eq(x, a))
			}
			return Or(ds...)
		})
	}
}

// ---------- frame obligations (root function with an explicit frame) ----------

func (vc *VC) frameActive() bool {
	return vc.rootContract != nil && (vc.rootContract.Modifies != nil || vc.rootContract.Pure) && !vc.rootContract.Trusted && !vc.rootContract.Unframed
}

// inFrame: is address a within the root contract's modifies set (or freshly allocated)?
func (vc *VC) inFrame(a Term) Term {
	ds := []Term{sx(">=", sx("birth", sx("root", a)), vc.entry.clk)}
	for _, m := range vc.frameAddrs {
		ds = append(ds, Eq(a, m))
	}
	for _, r := range vc.frameRoots {
		ds = append(ds, Eq(sx("root", a), sx("root", r)))
	}
	return Or(ds...)
}

func (fr *Frame) frameOblig(st *State, addrV ssa.Value, a Term, et types.Type, pos token.Pos) {
	vc := fr.vc
	if !vc.frameActive() {
		return
	}
	if al, ok := addrV.(*ssa.Alloc); ok && al.Parent() != nil {
		return // local cell
	}
	vc.oblig(fr, st, "frame", "", describe(addrV, 0), vc.inFrame(a), pos)
}

func (fr *Frame) frameObligMap(st *State, mv ssa.Value, m Term, pos token.Pos) {
	vc := fr.vc
	if !vc.frameActive() {
		return
	}
	if _, ok := mv.(*ssa.MakeMap); ok {
		return
	}
	vc.oblig(fr, st, "frame", "", "map:"+describe(mv, 0), vc.inFrame(m), pos)
}

func (fr *Frame) frameCheckAddr(st *State, a Term, what string, pos token.Pos) {
	vc := fr.vc
	if !vc.frameActive() {
		return
	}
	vc.oblig(fr, st, "frame", "", "callee-modifies:"+what, vc.inFrame(a), pos)
}

func (fr *Frame) frameCheckRoot(st *State, p Term, what string, pos token.Pos) {
	vc := fr.vc
	if !vc.frameActive() {
		return
	}
	vc.oblig(fr, st, "frame", "", "callee-modifies:"+what, vc.inFrame(p), pos)
}

// ---------- loops ----------

func (fr *Frame) loopKey(l *loopInfo) string { return fmt.Sprintf("%s#%d", fr.key, l.ordinal) }

func (fr *Frame) loopEnv(st, old *State, l *loopInfo, phiVal func(*ssa.Phi) Term) *Env {
	vc := fr.vc
	env := &Env{vc: vc, st: st, old: old, names: map[string]cval{}, where: "loop " + fr.loopKey(l), pkg: pkgOfFunc(fr.fn)}
	for i, p := range fr.fn.Params {
		if i < len(fr.params) {
			env.names[p.Name()] = cval{fr.params[i], vc.ctOf(p.Type())}
		}
	}
	for _, fv := range fr.fn.FreeVars {
		if t, ok := fr.vals[fv]; ok {
			env.names[fv.Name()] = cval{t, vc.ctOf(fv.Type())}
		}
	}
	// named locals that live in memory cells
	for _, b := range fr.fn.Blocks {
		for _, in := range b.Instrs {
			if al, ok := in.(*ssa.Alloc); ok && al.Comment != "" {
				if t, ok := fr.vals[al]; ok {
					et := al.Type().Underlying().(*types.Pointer).Elem()
					if _, isArr := types.Unalias(et).Underlying().(*types.Array); !isArr {
						if _, dup := env.names[al.Comment]; !dup {
							env.names[al.Comment] = cval{vc.loadT(st, t, et), vc.ctOf(et)}
							if env.addrs == nil {
								env.addrs = map[string]cval{}
							}
							env.addrs[al.Comment] = cval{t, vc.ctOf(et)}
						}
					}
				}
			}
		}
	}
	for _, in := range l.header.Instrs {
		phi, ok := in.(*ssa.Phi)
		if !ok {
			break
		}
		if phi.Comment != "" {
			env.names[phi.Comment] = cval{phiVal(phi), vc.ctOf(phi.Type())}
		}
	}
	// other named locals: a source variable whose references (debug info) inside the loop and in
	// the blocks dominating its header all denote one SSA value
	cand := map[string]ssa.Value{}
	bad := map[string]bool{}
	for _, b := range fr.fn.Blocks {
		if !l.body[b] && b != l.header && !b.Dominates(l.header) {
			continue
		}
		for _, in := range b.Instrs {
			dr, ok := in.(*ssa.DebugRef)
			if !ok || dr.IsAddr {
				continue
			}
			id, ok := dr.Expr.(*ast.Ident)
			if !ok {
				continue
			}
			if _, isPhi := dr.X.(*ssa.Phi); isPhi {
				continue
			}
			if prev, ok := cand[id.Name]; ok && prev != dr.X {
				bad[id.Name] = true
			}
			cand[id.Name] = dr.X
		}
	}
	for n, v := range cand {
		if bad[n] {
			continue
		}
		if _, dup := env.names[n]; dup {
			continue
		}
		if t, ok := fr.vals[v]; ok {
			env.names[n] = cval{t, vc.ctOf(v.Type())}
		}
	}
	return env
}

// autoInvariants: built-in facts for range-index loops.
func (fr *Frame) autoInvariants(l *loopInfo, phiVal func(*ssa.Phi) Term) []Term {
	var out []Term
	for _, in := range l.header.Instrs {
		phi, ok := in.(*ssa.Phi)
		if !ok {
			break
		}
		if phi.Comment == "rangeindex" {
			out = append(out, sx("<=", "(- 1)", phiVal(phi)))
			// find len bound: header contains t = phi + 1; cmp t < n
			for _, in2 := range l.header.Instrs {
				if b, ok := in2.(*ssa.BinOp); ok && b.Op == token.LSS {
					if add, ok := b.X.(*ssa.BinOp); ok && add.X == phi {
						if n, ok := fr.vals[b.Y]; ok {
							out = append(out, sx("<=", phiVal(phi), sx("-", n, "1")))
						}
					}
				}
			}
		}
	}
	return out
}

func (fr *Frame) enterLoop(l *loopInfo, ins []edgeIn, ci *cfgInfo) *State {
	vc := fr.vc
	spec := vc.C.Loops[fr.loopKey(l)]
	if spec != nil {
		vc.loopsBound[fr.loopKey(l)] = true
	}
	lk := fr.prefix + fmt.Sprint(l.header.Index)
	// initiation: invariant holds on every entry edge
	for _, e := range ins {
		e := e
		phiIn := func(phi *ssa.Phi) Term {
			for pi, p := range l.header.Preds {
				if p == e.from {
					return fr.val(phi.Edges[pi])
				}
			}
			return fr.val(phi)
		}
		est := e.st.clone()
		est.reach = e.cond
		if spec != nil {
			env := fr.loopEnv(est, fr.entrySt, l, phiIn)
			for _, cl := range spec.Invariants {
				vc.oblig(fr, est, "inv-init", fmt.Sprintf("%d:%s", l.ordinal, cl.Label), "", env.boolTerm(cl.Expr), blockPos(l.header))
			}
			vc.reportEnvErrors(env)
		}
	}
	st := vc.mergeStates(fmt.Sprintf("%sloop%d", fr.prefix, l.header.Index), ins)
	// record the header's entry versions to discover what the loop modifies
	if vc.loopEntry == nil {
		vc.loopEntry = map[string]*State{}
	}
	vc.loopEntry[lk] = st.clone()
	mod, known := vc.loopMod[lk]
	if !known {
		vc.needRerun = true
	}
	for _, k := range sortedKeys(mod) {
		vc.getMem(st, k, mod[k])
		st.mem[k] = vc.newMemVersion(k)
	}
	if len(mod) > 0 || !known {
		nc := vc.sc.Fresh("clk", "Int")
		vc.sc.Def(sx(">=", nc, st.clk))
		st.clk = nc
	}
	// phis: arbitrary iteration
	for _, in := range l.header.Instrs {
		phi, ok := in.(*ssa.Phi)
		if !ok {
			break
		}
		n := fr.freshVal(phi)
		vc.older(st, n, vc.sortOf(phi.Type()))
	}
	cur := func(phi *ssa.Phi) Term { return fr.val(phi) }
	for _, t := range fr.autoInvariants(l, cur) {
		vc.sc.Assume(st.reach, t)
	}
	if spec != nil {
		env := fr.loopEnv(st, fr.entrySt, l, cur)
		for _, cl := range spec.Invariants {
			if knownLoopInv[fmt.Sprintf("%s|%d:%s", fr.key, l.ordinal, cl.Label)] {
				// initiation of this clause is a recorded finding: it is reported, not assumed
				vc.Assumed["loop invariant "+fr.loopKey(l)+":"+cl.Label+" is a recorded known finding (not assumed)"] = true
				continue
			}
			vc.sc.Assume(st.reach, env.boolTerm(cl.Expr))
		}
		vc.reportEnvErrors(env)
	} else {
		vc.Abstracted["loop without invariant (state havoced): "+fr.loopKey(l)] = true
	}
	return st
}

func (fr *Frame) loopBack(l *loopInfo, from *ssa.BasicBlock, st *State) {
	vc := fr.vc
	lk := fr.prefix + fmt.Sprint(l.header.Index)
	// discovery of modified keys
	if entry := vc.loopEntry[lk]; entry != nil {
		if vc.loopMod[lk] == nil {
			vc.loopMod[lk] = map[string]string{}
		}
		for k, v := range st.mem {
			if ev, ok := entry.mem[k]; !ok || ev != v {
				if _, have := vc.loopMod[lk][k]; !have {
					vc.loopMod[lk][k] = vc.memSorts[k]
					vc.needRerun = true
				}
			}
		}
	}
	spec := vc.C.Loops[fr.loopKey(l)]
	phiBack := func(phi *ssa.Phi) Term {
		for pi, p := range l.header.Preds {
			if p == from {
				return fr.val(phi.Edges[pi])
			}
		}
		return fr.val(phi)
	}
	for i, t := range fr.autoInvariants(l, phiBack) {
		vc.oblig(fr, st, "inv-preserve", fmt.Sprintf("%d:auto%d", l.ordinal, i), "", t, blockPos(l.header))
	}
	if spec == nil {
		return
	}
	if len(spec.BackAsserts) > 0 {
		benv := fr.loopEnv(st, fr.entrySt, l, phiBack)
		for _, cl := range spec.BackAsserts {
			vc.oblig(fr, st, "inv-preserve", fmt.Sprintf("%d:continues-only-if:%s", l.ordinal, cl.Label), "", benv.boolTerm(cl.Expr), blockPos(l.header))
		}
		vc.reportEnvErrors(benv)
	}
	env := fr.loopEnv(st, fr.entrySt, l, phiBack)
	for _, cl := range spec.Invariants {
		if knownLoopInv[fmt.Sprintf("%s|%d:%s", fr.key, l.ordinal, cl.Label)] {
			continue // initiation is a recorded finding; the clause is not assumed, so preservation says nothing
		}
		vc.oblig(fr, st, "inv-preserve", fmt.Sprintf("%d:%s", l.ordinal, cl.Label), "", env.boolTerm(cl.Expr), blockPos(l.header))
	}
	vc.reportEnvErrors(env)
}

// ---------- stable globals ----------

type globalInit struct {
	kind string // "errnew", "func", "const", "opaque"
	fn   *ssa.Function
	val  ssa.Value
	msg  string
}

// analyzeGlobals finds module globals that are only written by package initialisation.
func (P *Program) analyzeGlobals() {
	P.globalInit = map[*ssa.Global]*globalInit{}
	P.unstable = map[*ssa.Global]bool{}
	for path, sp := range P.SSA {
		if !strings.HasPrefix(path, modPath+"/pkg/") {
			continue
		}
		initFn := sp.Func("init")
		for _, fn := range P.Funcs {
			if pkgOfFunc(fn) != sp.Pkg || fn == initFn {
				continue
			}
			for _, b := range fn.Blocks {
				for _, in := range b.Instrs {
					for _, op := range in.Operands(nil) {
						g, ok := (*op).(*ssa.Global)
						if !ok {
							continue
						}
						switch x := in.(type) {
						case *ssa.UnOp:
							continue // load
						case *ssa.Store:
							if x.Addr == g && x.Val != g {
								P.unstable[g] = true
								continue
							}
						}
						P.unstable[g] = true // address escapes
					}
				}
			}
		}
		if initFn == nil {
			continue
		}
		for _, b := range initFn.Blocks {
			for _, in := range b.Instrs {
				st, ok := in.(*ssa.Store)
				if !ok {
					continue
				}
				g, ok := st.Addr.(*ssa.Global)
				if !ok {
					continue
				}
				gi := &globalInit{kind: "opaque", val: st.Val}
				switch v := st.Val.(type) {
				case *ssa.Call:
					if f := v.Common().StaticCallee(); f != nil && extKey(f) == "errors.New" {
						gi.kind = "errnew"
						if c, ok := v.Common().Args[0].(*ssa.Const); ok {
							gi.msg = c.Value.ExactString()
						}
					}
				case *ssa.Function:
					gi.kind = "func"
					gi.fn = v
				case *ssa.MakeClosure:
					if len(v.Bindings) == 0 {
						gi.kind = "func"
						gi.fn = v.Fn.(*ssa.Function)
					}
				case *ssa.Const:
					gi.kind = "const"
				}
				if _, dup := P.globalInit[g]; dup {
					gi.kind = "opaque"
				}
				P.globalInit[g] = gi
			}
		}
	}
}

// stableGlobal: value term of a global that no module function writes after init.
func (vc *VC) stableGlobal(g *ssa.Global) (Term, bool) {
	if t, ok := vc.stableCache[g]; ok {
		return t, t != ""
	}
	t, ok := vc.stableGlobal1(g)
	if !ok {
		t = ""
	}
	vc.stableCache[g] = t
	return t, ok
}

func (vc *VC) stableGlobal1(g *ssa.Global) (Term, bool) {
	P := vc.P
	if g.Pkg == nil {
		return "", false
	}
	inModule := strings.HasPrefix(g.Pkg.Pkg.Path(), modPath+"/pkg/")
	if inModule && P.unstable[g] {
		return "", false
	}
	et := g.Type().Underlying().(*types.Pointer).Elem()
	if _, isStruct := structOf(et); isStruct {
		return "", false
	}
	sort := vc.sortOf(et)
	name := "gv_" + sanitize(qualifier(g.Pkg.Pkg)+"."+g.Name())
	gi := P.globalInit[g]
	if inModule && gi == nil {
		// zero-initialised, never written
		return vc.zeroOf(et), true
	}
	vc.sc.DeclConst(name, sort)
	vc.Assumed["global is only written during package initialisation: "+qualifier(g.Pkg.Pkg)+"."+g.Name()] = true
	if gi != nil {
		switch gi.kind {
		case "errnew":
			vc.sc.DeclFun("errid", []string{"Val"}, "Int")
			vc.errSentinels[name] = true
			vc.sc.Axiom(And(Not(Eq(name, "nilval")), sx("vnn", name), Eq(sx("errid", name), fmt.Sprint(len(vc.errSentinels)))))
			vc.sc.Axiom(Eq(sx("typeOf", name), vc.tyIDByName("*errors.errorString")))
		case "func":
			vc.sc.Axiom(Not(Eq(name, "nilref")))
			vc.closures[name] = &closureInfo{fn: gi.fn}
		case "const":
			fr0 := &Frame{vc: vc, vals: map[ssa.Value]Term{}}
			return fr0.constTerm(gi.val.(*ssa.Const)), true
		default:
			switch sort {
			case "Ref":
				vc.sc.Axiom(And(Eq(sx("birth", sx("root", name)), "(- 1)")))
			}
		}
	} else if !inModule {
		if isErrorType(et) {
			vc.sc.DeclFun("errid", []string{"Val"}, "Int")
			vc.errSentinels[name] = true
			vc.sc.Axiom(And(Not(Eq(name, "nilval")), sx("vnn", name), Eq(sx("errid", name), fmt.Sprint(len(vc.errSentinels)))))
		}
	}
	return name, true
}

func (vc *VC) tyIDByName(k string) Term {
	if id, ok := vc.tyIDs[k]; ok {
		return fmt.Sprint(id)
	}
	id := len(vc.tyIDs) + 1
	vc.tyIDs[k] = id
	return fmt.Sprint(id)
}

// finalizeTypes emits implements-facts for the interfaces used in type assertions.
func isModuleType(t types.Type) bool {
	if t == nil {
		return false
	}
	t = types.Unalias(t)
	if p, ok := t.(*types.Pointer); ok {
		t = types.Unalias(p.Elem())
	}
	n, ok := t.(*types.Named)
	return ok && n.Obj().Pkg() != nil && strings.HasPrefix(n.Obj().Pkg().Path(), modPath)
}

// notModuleErr: the error value e was produced outside the module (stdlib / third party), so its
// dynamic type is not one of the module's own error types.
func (vc *VC) notModuleErr(e Term) Term {
	vc.sc.DeclFun("isModTy", []string{"Int"}, "Bool")
	vc.usesModTy = true
	return Or(Eq(e, "nilval"), Not(sx("isModTy", sx("typeOf", e))))
}

func (vc *VC) finalizeTypes() {
	if vc.usesModTy {
		for id, t := range vc.tyTypes {
			if isModuleType(t) {
				vc.sc.Axiom(sx("isModTy", fmt.Sprint(id)))
			} else {
				vc.sc.Axiom(Not(sx("isModTy", fmt.Sprint(id))))
			}
		}
		for k, id := range vc.tyIDs {
			if _, ok := vc.tyTypes[id]; !ok {
				_ = k
				vc.sc.Axiom(Not(sx("isModTy", fmt.Sprint(id))))
			}
		}
		vc.sc.Axiom(Not(sx("isModTy", "0")))
	}
	for name, it := range vc.ifaceUsed {
		iface, ok := it.Underlying().(*types.Interface)
		if !ok {
			continue
		}
		for id, t := range vc.tyTypes {
			if t == nil {
				continue
			}
			if _, isIface := t.Underlying().(*types.Interface); isIface {
				continue
			}
			if types.Implements(t, iface) {
				vc.sc.Axiom(sx(name, fmt.Sprint(id)))
			} else {
				vc.sc.Axiom(Not(sx(name, fmt.Sprint(id))))
			}
		}
	}
}

func listsStorageFlag(ct *FuncContract) bool {
	for _, loc := range ct.Modifies {
		if loc.Op == "id" && loc.Name == "storageFailed" {
			return true
		}
	}
	return false
}

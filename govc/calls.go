package main

import (
	"sort"
	"fmt"
	"go/token"
	"go/types"
	"strings"

	"golang.org/x/tools/go/ssa"
)

// call translates a call instruction and returns the result terms (in the callee's declared result types).
func (fr *Frame) call(st *State, call ssa.CallInstruction) []Term {
	vc := fr.vc
	reach0 := st.reach
	vc.curReach = reach0
	c := call.Common()
	if c.IsInvoke() {
		return fr.invoke(st, call)
	}
	if b, ok := c.Value.(*ssa.Builtin); ok {
		return fr.builtin(st, call, b)
	}
	var args []Term
	for _, a := range c.Args {
		args = append(args, fr.val(a))
	}
	var fn *ssa.Function
	var bindings []Term
	if f := c.StaticCallee(); f != nil {
		fn = f
		if mc, ok := c.Value.(*ssa.MakeClosure); ok {
			for _, b := range mc.Bindings {
				bindings = append(bindings, fr.val(b))
			}
		}
	} else {
		ft := fr.val(c.Value)
		if ci, ok := vc.closures[ft]; ok {
			fn, bindings = ci.fn, ci.bindings
		} else if f, ok := vc.fnTerms[ft]; ok {
			fn = f
		}
		if vc.opts.Safety {
			g := fr.nilGoal(c.Value, ft)
			vc.oblig(fr, st, "nil-func", "", describe(c.Value, 0), g, call.Pos())
		}
	}
	if fn == nil {
		return fr.dynamicCall(st, call, args)
	}
	if o := fn.Origin(); o != nil {
		fn = o
	}
	key := funcKey(fn)
	// coerce arguments to the callee's declared parameter types (generic boundaries)
	for i := range args {
		if i < len(fn.Params) && i < len(c.Args) {
			args[i] = vc.coerce(args[i], c.Args[i].Type(), fn.Params[i].Type())
		}
	}
	{
		var ats []types.Type
		for _, p := range fn.Params {
			ats = append(ats, p.Type())
		}
		if len(ats) == 0 {
			ats = paramTypes(nil, fn.Signature)
		}
		k := key
		if !isModuleFunc(fn) {
			k = extKey(fn)
		}
		vc.recordCallArgs(k, args, ats)
		// elements of a variadic argument at the time of the call (callargelem(key, i, j))
		if vc.callArgElems == nil {
			vc.callArgElems = map[string]map[int][]cval{}
		}
		for _, kk := range []string{k, fmt.Sprintf("%s#%d", k, vc.argCount[k])} {
			if _, seen := vc.callArgElems[kk]; seen {
				continue
			}
			m := map[int][]cval{}
			for i, a := range c.Args {
				sl, ok := a.(*ssa.Slice)
				if !ok || sl.Low != nil || sl.High != nil {
					continue
				}
				al, ok := sl.X.(*ssa.Alloc)
				if !ok {
					continue
				}
				at, ok := al.Type().Underlying().(*types.Pointer).Elem().Underlying().(*types.Array)
				if !ok || at.Len() > 6 || i >= len(args) {
					continue
				}
				var es []cval
				for j := int64(0); j < at.Len(); j++ {
					es = append(es, cval{vc.loadT(st, vc.elemAddr(vc.sptr(args[i]), IntLit(j)), at.Elem()), vc.ctOf(at.Elem())})
				}
				m[i] = es
			}
			vc.callArgElems[kk] = m
		}
		// the static type boxed into an interface argument (callarg(key, i, "dyn"))
		if vc.callArgDyn == nil {
			vc.callArgDyn = map[string][]cval{}
		}
		for _, kk := range []string{k, fmt.Sprintf("%s#%d", k, vc.argCount[k])} {
			if _, seen := vc.callArgDyn[kk]; seen {
				continue
			}
			dts := make([]cval, len(c.Args))
			for i, a := range c.Args {
				if mi, ok := a.(*ssa.MakeInterface); ok {
					dts[i] = cval{fr.val(mi.X), vc.ctOf(mi.X.Type())}
				}
			}
			vc.callArgDyn[kk] = dts
		}
	}
	if h, ok := extHandlers[extKey(fn)]; ok {
		if res, handled := h(fr, st, call, fn, args); handled {
			vc.recordCallSyms(extKey(fn), fn.Signature, res)
			return res
		}
	}
	if ct := vc.C.Funcs[key]; ct != nil && !(fr.isRoot && false) {
		return fr.applyContract(st, call, fn, ct, args, bindings)
	}
	if ct := vc.C.Externs[extKey(fn)]; ct != nil {
		return fr.applyContract(st, call, fn, ct, args, bindings)
	}
	rk := key
	if !isModuleFunc(fn) {
		rk = extKey(fn)
	}
	if isModuleFunc(fn) && len(fn.Blocks) > 0 && fr.canInline(fn) {
		res := fr.inline(st, call, fn, args, bindings)
		vc.curReach = reach0 // nested calls moved it
		vc.recordCallSyms(rk, fn.Signature, res)
		return res
	}
	res := fr.defaultCall(st, call, key, fn.Signature, fn, c.Args, args)
	vc.curReach = reach0
	vc.recordCallSyms(rk, fn.Signature, res)
	return res
}

func extKey(fn *ssa.Function) string {
	if fn.Pkg == nil && fn.Object() == nil {
		return funcKey(fn)
	}
	var p *types.Package
	if fn.Pkg != nil {
		p = fn.Pkg.Pkg
	} else {
		p = fn.Object().Pkg()
	}
	if p == nil {
		return funcKey(fn)
	}
	name := fn.Name()
	if recv := fn.Signature.Recv(); recv != nil {
		t := recv.Type()
		if pt, ok := t.(*types.Pointer); ok {
			t = pt.Elem()
		}
		if n, ok := types.Unalias(t).(*types.Named); ok {
			name = n.Obj().Name() + "." + name
		}
	}
	return p.Path() + "." + name
}

// mustDeref: parameters that fn dereferences unconditionally (in its entry block, directly or by
// passing them on to such a parameter of a callee). Calling fn with nil for one of them panics.
func (P *Program) mustDeref(fn *ssa.Function) []bool {
	P.mdMu.Lock()
	if r, ok := P.mdCache[fn]; ok {
		P.mdMu.Unlock()
		return r
	}
	if P.mdCache == nil {
		P.mdCache = map[*ssa.Function][]bool{}
	}
	res := make([]bool, len(fn.Params))
	P.mdCache[fn] = res // breaks recursion
	P.mdMu.Unlock()
	if len(fn.Blocks) == 0 {
		return res
	}
	idx := map[ssa.Value]int{}
	for i, p := range fn.Params {
		idx[p] = i
	}
	mark := func(v ssa.Value) {
		if i, ok := idx[v]; ok {
			switch types.Unalias(fn.Params[i].Type()).Underlying().(type) {
			case *types.Pointer, *types.Interface:
				res[i] = true
			}
		}
	}
	for _, in := range fn.Blocks[0].Instrs {
		switch x := in.(type) {
		case *ssa.FieldAddr:
			mark(x.X)
		case *ssa.UnOp:
			if x.Op == token.MUL {
				mark(x.X)
			}
		case *ssa.Store:
			mark(x.Addr)
		case *ssa.Call:
			c := x.Common()
			if c.IsInvoke() {
				mark(c.Value)
			} else if callee := c.StaticCallee(); callee != nil && isModuleFunc(callee) && callee != fn {
				if o := callee.Origin(); o != nil {
					callee = o
				}
				md := P.mustDeref(callee)
				for i, a := range c.Args {
					if i < len(md) && md[i] {
						mark(a)
					}
				}
			}
		case *ssa.If, *ssa.Jump, *ssa.Return, *ssa.Panic:
		}
	}
	return res
}

// mayWriteParam: may fn (transitively) write memory reachable from its i-th parameter? A simple
// syntactic may-analysis: stores through addresses derived from the parameter, or the parameter
// (or something derived from it) escaping into an external / dynamic / interface call, a closure,
// a store or a return value.
func (P *Program) mayWriteParam(fn *ssa.Function) []bool {
	P.mdMu.Lock()
	if r, ok := P.mwCache[fn]; ok {
		P.mdMu.Unlock()
		return r
	}
	if P.mwCache == nil {
		P.mwCache = map[*ssa.Function][]bool{}
	}
	res := make([]bool, len(fn.Params))
	for i := range res {
		res[i] = true // pessimistic while computing (recursion)
	}
	P.mwCache[fn] = res
	P.mdMu.Unlock()
	if len(fn.Blocks) == 0 {
		return res
	}
	// derived[v] = set of param indexes v is derived from (address computations, loads of pointers, conversions)
	derived := map[ssa.Value]map[int]bool{}
	for i, p := range fn.Params {
		derived[p] = map[int]bool{i: true}
	}
	add := func(dst ssa.Value, src ssa.Value) bool {
		changed := false
		for i := range derived[src] {
			if derived[dst] == nil {
				derived[dst] = map[int]bool{}
			}
			if !derived[dst][i] {
				derived[dst][i] = true
				changed = true
			}
		}
		return changed
	}
	tmp := make([]bool, len(fn.Params))
	mark := func(v ssa.Value) {
		for i := range derived[v] {
			tmp[i] = true
		}
	}
	for changed := true; changed; {
		changed = false
		for _, b := range fn.Blocks {
			for _, in := range b.Instrs {
				switch x := in.(type) {
				case *ssa.FieldAddr:
					changed = add(x, x.X) || changed
				case *ssa.IndexAddr:
					changed = add(x, x.X) || changed
				case *ssa.UnOp:
					changed = add(x, x.X) || changed
				case *ssa.ChangeType:
					changed = add(x, x.X) || changed
				case *ssa.ChangeInterface:
					changed = add(x, x.X) || changed
				case *ssa.MakeInterface:
					changed = add(x, x.X) || changed
				case *ssa.Convert:
					changed = add(x, x.X) || changed
				case *ssa.Slice:
					changed = add(x, x.X) || changed
				case *ssa.Field:
					changed = add(x, x.X) || changed
				case *ssa.TypeAssert:
					changed = add(x, x.X) || changed
				case *ssa.Extract:
					changed = add(x, x.Tuple) || changed
				case *ssa.Phi:
					for _, e := range x.Edges {
						changed = add(x, e) || changed
					}
				}
			}
		}
	}
	for _, b := range fn.Blocks {
		for _, in := range b.Instrs {
			switch x := in.(type) {
			case *ssa.Store:
				mark(x.Addr)
				if isPointerLike(x.Val.Type()) || isInterfaceLike(x.Val.Type()) {
					mark(x.Val) // escapes
				}
			case *ssa.MapUpdate:
				mark(x.Map)
				mark(x.Value)
			case *ssa.MakeClosure:
				for _, bnd := range x.Bindings {
					mark(bnd)
				}
			case *ssa.Return:
				for _, r := range x.Results {
					if isPointerLike(r.Type()) || isInterfaceLike(r.Type()) {
						if _, ok := types.Unalias(r.Type()).Underlying().(*types.Slice); !ok {
							mark(r) // aliasing result: later writes by the caller are the caller's
						}
					}
				}
			case ssa.CallInstruction:
				c := x.Common()
				if c.IsInvoke() {
					for _, a := range c.Args {
						if _, isPtr := types.Unalias(a.Type()).Underlying().(*types.Pointer); isPtr {
							mark(a)
						}
					}
					continue
				}
				if _, ok := c.Value.(*ssa.Builtin); ok {
					if c.Value.Name() == "append" || c.Value.Name() == "copy" || c.Value.Name() == "delete" {
						mark(c.Args[0])
					}
					continue
				}
				callee := c.StaticCallee()
				if callee != nil {
					if o := callee.Origin(); o != nil {
						callee = o
					}
				}
				switch {
				case callee != nil && isModuleFunc(callee) && len(callee.Blocks) > 0:
					mw := P.mayWriteParam(callee)
					for i, a := range c.Args {
						if i >= len(mw) || mw[i] {
							mark(a)
						}
					}
					if mc, ok := c.Value.(*ssa.MakeClosure); ok {
						for _, bnd := range mc.Bindings {
							mark(bnd)
						}
					}
				case callee != nil && pureExternal(callee):
				case callee != nil && readOnlyExternal(callee):
				default:
					for _, a := range c.Args {
						mark(a)
					}
				}
			}
		}
	}
	copy(res, tmp)
	return res
}

// readOnlyExternal: frequently used external functions known not to write through their pointer arguments.
func readOnlyExternal(fn *ssa.Function) bool {
	switch extKey(fn) {
	case "net/http.Request.Context", "net/http.Request.WithContext", "net/http.Request.BasicAuth", "net/http.Request.Cookie",
		"log/slog.Logger.Log", "log/slog.Logger.Error", "log/slog.Logger.ErrorContext", "log/slog.Logger.Info", "log/slog.Logger.Debug", "log/slog.Logger.With",
		"net/url.URL.String", "net/url.URL.Query", "net/url.URL.Hostname", "net/url.Values.Get", "net/url.Values.Encode", "net/http.Header.Get",
		"context.WithValue", "context.WithCancel", "context.WithTimeout", "github.com/zitadel/logging.FromContext":
		return true
	}
	return false
}

// nonNilResults: results of fn that are non-nil on every return (allocation, closure, the
// unconditionally dereferenced receiver of a fluent method, or such a result of a callee).
func (P *Program) nonNilResults(fn *ssa.Function) []bool {
	P.mdMu.Lock()
	if r, ok := P.nnCache[fn]; ok {
		P.mdMu.Unlock()
		return r
	}
	if P.nnCache == nil {
		P.nnCache = map[*ssa.Function][]bool{}
	}
	n := fn.Signature.Results().Len()
	res := make([]bool, n)
	P.nnCache[fn] = res
	P.mdMu.Unlock()
	if len(fn.Blocks) == 0 || n == 0 {
		return res
	}
	md := P.mustDeref(fn)
	var nonNil func(v ssa.Value, depth int) bool
	nonNil = func(v ssa.Value, depth int) bool {
		if depth > 6 {
			return false
		}
		switch x := v.(type) {
		case *ssa.Alloc, *ssa.MakeClosure, *ssa.Function, *ssa.Global, *ssa.MakeMap, *ssa.MakeChan, *ssa.FieldAddr, *ssa.IndexAddr:
			return true
		case *ssa.MakeInterface:
			if isPointerLike(x.X.Type()) {
				return nonNil(x.X, depth+1)
			}
			return true
		case *ssa.ChangeType:
			return nonNil(x.X, depth+1)
		case *ssa.ChangeInterface:
			return nonNil(x.X, depth+1)
		case *ssa.Parameter:
			for i, p := range fn.Params {
				if p == x {
					return md[i]
				}
			}
		case *ssa.Phi:
			for _, e := range x.Edges {
				if e == v || !nonNil(e, depth+1) {
					return false
				}
			}
			return true
		case *ssa.Call:
			if callee := x.Common().StaticCallee(); callee != nil && isModuleFunc(callee) && callee != fn && callee.Signature.Results().Len() == 1 {
				if o := callee.Origin(); o != nil {
					callee = o
				}
				return P.nonNilResults(callee)[0]
			}
			// call through a package-level func variable initialised with a closure (oidc.ErrXxx)
			if ld, ok := x.Common().Value.(*ssa.UnOp); ok {
				if g, ok := ld.X.(*ssa.Global); ok && !P.unstable[g] {
					if gi := P.globalInit[g]; gi != nil && gi.kind == "func" && gi.fn.Signature.Results().Len() == 1 {
						return P.nonNilResults(gi.fn)[0]
					}
				}
			}
		case *ssa.Extract:
			if c, ok := x.Tuple.(*ssa.Call); ok {
				if callee := c.Common().StaticCallee(); callee != nil && isModuleFunc(callee) && callee != fn {
					if o := callee.Origin(); o != nil {
						callee = o
					}
					r := P.nonNilResults(callee)
					return x.Index < len(r) && r[x.Index]
				}
			}
		}
		return false
	}
	tmp := make([]bool, n)
	for i := range tmp {
		switch types.Unalias(fn.Signature.Results().At(i).Type()).Underlying().(type) {
		case *types.Pointer, *types.Interface, *types.Map, *types.Signature:
			tmp[i] = !isErrorType(fn.Signature.Results().At(i).Type())
		}
	}
	for _, b := range fn.Blocks {
		if len(b.Instrs) == 0 {
			continue
		}
		ret, ok := b.Instrs[len(b.Instrs)-1].(*ssa.Return)
		if !ok {
			continue
		}
		for i := range tmp {
			if tmp[i] && (i >= len(ret.Results) || !nonNil(ret.Results[i], 0)) {
				tmp[i] = false
			}
		}
	}
	copy(res, tmp)
	return res
}

// realInstrs: instructions of b without debug references (budgets are in real instructions).
func realInstrs(b *ssa.BasicBlock) int {
	n := 0
	for _, in := range b.Instrs {
		if _, ok := in.(*ssa.DebugRef); !ok {
			n++
		}
	}
	return n
}

func (fr *Frame) canInline(fn *ssa.Function) bool {
	if fr.depth >= fr.vc.opts.MaxInline {
		return false
	}
	if fr.vc.opts.InlineBudget > 0 && fr.vc.inlinedInstrs > fr.vc.opts.InlineBudget {
		return false
	}
	k := funcKey(fn)
	if k == fr.key {
		return false
	}
	for _, s := range fr.stack {
		if s == k {
			return false
		}
	}
	n := 0
	for _, b := range fn.Blocks {
		n += realInstrs(b)
	}
	return n <= 400
}

func (fr *Frame) inline(st *State, call ssa.CallInstruction, fn *ssa.Function, args, bindings []Term) []Term {
	vc := fr.vc
	vc.Inlined[funcKey(fn)] = true
	for _, b := range fn.Blocks {
		vc.inlinedInstrs += realInstrs(b)
	}
	sub := vc.newFrame(fn, fr)
	out, res := sub.run(st, args, bindings)
	if out == nil {
		// callee never returns (panics on all paths): the continuation is unreachable
		st.reach = "false"
		var zs []Term
		for i := 0; i < fn.Signature.Results().Len(); i++ {
			zs = append(zs, vc.zeroOf(fn.Signature.Results().At(i).Type()))
		}
		return zs
	}
	st.reach = out.reach
	st.mem = out.mem
	st.clk = out.clk
	return res
}

// defaultCall: summary for a callee without contract that is not inlined: fresh results,
// the direct pointees of pointer arguments may change, Go's (value, nil)/(zero, err) idiom assumed.
func (fr *Frame) defaultCall(st *State, call ssa.CallInstruction, key string, sig *types.Signature, fn *ssa.Function, argVals []ssa.Value, args []Term) []Term {
	vc := fr.vc
	pure := false
	if fn != nil && !isModuleFunc(fn) && pureExternal(fn) {
		pure = true
	}
	if fn != nil && isModuleFunc(fn) {
		vc.Abstracted["call not inlined (summary): "+key] = true
		// inferred precondition: arguments the callee dereferences unconditionally must be non-nil
		if vc.opts.Safety {
			md := vc.P.mustDeref(fn)
			for i, a := range argVals {
				if i < len(md) && md[i] && i < len(args) {
					g := fr.nilGoal(a, args[i])
					vc.oblig(fr, st, "nil-arg", "", shortName(key)+"("+describe(a, 0)+")", g, call.Pos())
				}
			}
		}
	} else if !pure {
		vc.Assumed["external without spec (default summary): "+key] = true
	}
	clkBefore := st.clk
	if !pure {
		if fn == nil || isModuleFunc(fn) {
			vc.mayRaiseStorageFlag(st)
		}
		clkBefore = vc.bumpClock(st)
		hv, ha := argVals, args
		if fn != nil && isModuleFunc(fn) && len(fn.Blocks) > 0 {
			// only the arguments the callee may write through (may-analysis) are havoced
			mw := vc.P.mayWriteParam(fn)
			hv, ha = nil, nil
			for i := range argVals {
				if i < len(args) && (i >= len(mw) || mw[i]) {
					hv = append(hv, argVals[i])
					ha = append(ha, args[i])
				}
			}
		} else if fn != nil && readOnlyExternal(fn) {
			hv, ha = nil, nil
		}
		if fn != nil && !isModuleFunc(fn) && vc.frameActive() {
			if p := pkgOfFunc(fn); p != nil && (p.Path() == "slices" || p.Path() == "sort") {
				// an in-place mutator of the standard library writes the elements of its slice argument
				for i, a := range hv {
					if i < len(ha) && vc.sortOf(a.Type()) == "Slice" {
						vc.oblig(fr, st, "frame", "", "elements-of:"+describe(a, 0)+" (in-place "+shortName(key)+")", vc.inFrame(vc.sptr(ha[i])), call.Pos())
					} else if bi, ok := vc.boxes[ha[i]]; ok && vc.sortOf(bi.t) == "Slice" {
						vc.oblig(fr, st, "frame", "", "elements-of:"+describe(a, 0)+" (in-place "+shortName(key)+")", vc.inFrame(vc.sptr(bi.inner)), call.Pos())
					}
				}
			}
		}
		fr.havocArgs(st, hv, ha, false, clkBefore)
	}
	var res []Term
	n := sig.Results().Len()
	allSimple := true
	var sorts []string
	for i, a := range args {
		s := "Int"
		if i < len(argVals) {
			s = vc.sortOf(argVals[i].Type())
		}
		if fn != nil && i < len(fn.Params) {
			s = vc.sortOf(fn.Params[i].Type())
		}
		sorts = append(sorts, s)
		if s == "Ref" || s == "Val" || s == "Slice" || strings.HasPrefix(s, "S_") || strings.HasPrefix(s, "(Array") {
			allSimple = false
		}
		_ = a
	}
	for i := 0; i < n; i++ {
		rt := sig.Results().At(i).Type()
		rs := vc.sortOf(rt)
		var r Term
		if pure && allSimple && rs == "Slice" && isByteSlice(rt) {
			f := fmt.Sprintf("ext_%s_%d", sanitize(key), i)
			vc.sc.DeclFun(f, sorts, "String")
			base := vc.alloc(st, fr.prefix+"bytes")
			r = vc.sc.Fresh(fr.prefix+"r_"+shortName(key), "Slice")
			content := sx(f, args...)
			vc.sc.Def(And(Eq(r, vc.mkSlice(base, sx("str.len", content), sx("str.len", content))), Eq(sx("bstr", r), content)))
		} else if pure && allSimple && rs != "Ref" && rs != "Slice" {
			f := fmt.Sprintf("ext_%s_%d", sanitize(key), i)
			if len(args) == 0 {
				r = vc.sc.DeclConst(f, rs)
			} else {
				vc.sc.DeclFun(f, sorts, rs)
				r = sx(f, args...)
			}
		} else {
			r = vc.sc.Fresh(fr.prefix+"r_"+shortName(key), rs)
			vc.older(st, r, rs)
			vc.structResult(st, r, rt)
		}
		res = append(res, r)
	}
	fr.assumeIdiom(st, sig, res, key)
	if fn != nil && !isModuleFunc(fn) {
		for i := 0; i < n; i++ {
			if isErrorType(sig.Results().At(i).Type()) {
				vc.sc.Assume(st.reach, vc.notModuleErr(res[i]))
			}
		}
	}
	if fn != nil && isModuleFunc(fn) {
		for i, nn := range vc.P.nonNilResults(fn) {
			if nn && i < len(res) {
				switch vc.sortOf(sig.Results().At(i).Type()) {
				case "Ref":
					vc.sc.Assume(st.reach, Not(Eq(res[i], "nilref")))
				case "Val":
					vc.sc.Assume(st.reach, And(Not(Eq(res[i], "nilval")), sx("vnn", res[i])))
				}
			}
		}
	}
	if fn != nil && !isModuleFunc(fn) && n >= 1 && !(n >= 2 && isErrorType(sig.Results().At(n-1).Type())) {
		// external constructors / getters without an error result return usable values
		for i := 0; i < n; i++ {
			rt := sig.Results().At(i).Type()
			if isErrorType(rt) {
				continue
			}
			switch vc.sortOf(rt) {
			case "Ref":
				if _, isMap := types.Unalias(rt).Underlying().(*types.Map); !isMap {
					vc.sc.Assume(st.reach, Not(Eq(res[i], "nilref")))
				}
				vc.trusted[res[i]] = true
				vc.Assumed["external function without error result returns non-nil: "+key] = true
			case "Val":
				vc.trusted[res[i]] = true
				vc.Assumed["external function without error result returns non-nil: "+key] = true
			}
		}
	}
	return res
}

// recordCallArgs remembers the argument terms of the first call of key (for callarg() in contracts).
func (vc *VC) recordCallArgs(key string, args []Term, ats []types.Type) {
	if vc.callArgs == nil {
		vc.callArgs = map[string][]cval{}
	}
	if !strings.Contains(key, "#") {
		if vc.argCount == nil {
			vc.argCount = map[string]int{}
		}
		vc.argCount[key]++
		vc.recordCallArgs(fmt.Sprintf("%s#%d", key, vc.argCount[key]), args, ats)
	}
	if _, ok := vc.callArgs[key]; ok {
		return
	}
	var cs []cval
	for i, a := range args {
		if i < len(ats) {
			cs = append(cs, cval{a, vc.ctOf(ats[i])})
		}
	}
	vc.callArgs[key] = cs
}

func shortName(key string) string {
	if i := strings.LastIndex(key, "."); i >= 0 {
		return key[i+1:]
	}
	return key
}

// assumeIdiom: err == nil ==> pointer/interface results are non-nil.
func (fr *Frame) assumeIdiom(st *State, sig *types.Signature, res []Term, key string) {
	vc := fr.vc
	n := sig.Results().Len()
	if n < 2 || len(res) != n {
		return
	}
	last := sig.Results().At(n - 1).Type()
	if !isErrorType(last) {
		return
	}
	for i := 0; i < n-1; i++ {
		rt := sig.Results().At(i).Type()
		switch vc.sortOf(rt) {
		case "Ref":
			if _, isMap := types.Unalias(rt).Underlying().(*types.Map); isMap {
				continue
			}
			vc.sc.Assume(st.reach, Implies(Eq(res[n-1], "nilval"), Not(Eq(res[i], "nilref"))))
			vc.Assumed["idiom err==nil ==> result non-nil: "+key] = true
		case "Val":
			if isTypeParam(rt) {
				continue
			}
			vc.sc.Assume(st.reach, Implies(Eq(res[n-1], "nilval"), And(Not(Eq(res[i], "nilval")), sx("vnn", res[i]))))
			vc.Assumed["idiom err==nil ==> result non-nil: "+key] = true
		}
	}
}

func isErrorType(t types.Type) bool {
	n, ok := types.Unalias(t).(*types.Named)
	return ok && n.Obj().Pkg() == nil && n.Obj().Name() == "error"
}

// havocArgs: the objects directly pointed to by pointer arguments (and elements of slice
// arguments, and the abstract state of interface arguments) may be modified by the callee.
func (fr *Frame) havocArgs(st *State, argVals []ssa.Value, args []Term, deep bool, clkBefore Term) {
	vc := fr.vc
	for i, a := range args {
		if i >= len(argVals) {
			break
		}
		av := argVals[i]
		t := types.Unalias(av.Type())
		// an `any` argument built from a pointer: treat as the pointer
		if mi, ok := av.(*ssa.MakeInterface); ok {
			if pt, ok := types.Unalias(mi.X.Type()).Underlying().(*types.Pointer); ok {
				vc.havocPointee(st, fr.val(mi.X), pt.Elem(), deep, clkBefore)
				continue
			}
		}
		switch u := t.Underlying().(type) {
		case *types.Pointer:
			if isContextOrImmutable(u.Elem()) {
				continue
			}
			vc.havocPointee(st, a, u.Elem(), deep, clkBefore)
		case *types.Slice:
			if isByteSlice(t) {
				continue
			}
			keys := map[string]types.Type{}
			vc.locKeys(u.Elem(), keys)
			for _, k := range sortedKeys(keys) {
				kt := keys[k]
				aa := a
				vc.havoc(st, k, "(Array Ref "+vc.sortOf(kt)+")", func(x Term) Term {
					return Eq(sx("root", x), sx("root", vc.sptr(aa)))
				})
			}
		case *types.Interface:
			if isContextType(t) || isErrorType(t) {
				continue
			}
			vc.havocOS(st, a, t)
			// an interface value known to hold a pointer: the callee may write through it
			if bi, ok := vc.boxes[a]; ok {
				if pt, ok := types.Unalias(bi.t).Underlying().(*types.Pointer); ok && !isContextOrImmutable(pt.Elem()) {
					vc.havocPointee(st, bi.inner, pt.Elem(), deep, clkBefore)
				}
			}
		case *types.Map:
			mt := u
			kv, kin := mapKeys(mt)
			ks, vs := vc.sortOf(mt.Key()), vc.sortOf(mt.Elem())
			aa := a
			vc.havoc(st, kv, "(Array Ref (Array "+ks+" "+vs+"))", func(x Term) Term { return Eq(x, aa) })
			vc.havoc(st, kin, "(Array Ref (Array "+ks+" Bool))", func(x Term) Term { return Eq(x, aa) })
		}
		if isTypeParam(t) {
			vc.havocOS(st, a, t)
		}
	}
}

func isByteSlice(t types.Type) bool {
	s, ok := types.Unalias(t).Underlying().(*types.Slice)
	if !ok {
		return false
	}
	b, ok := types.Unalias(s.Elem()).Underlying().(*types.Basic)
	return ok && (b.Kind() == types.Byte || b.Kind() == types.Uint8)
}

func isContextType(t types.Type) bool { return isNamed(t, "context", "Context") }

func isContextOrImmutable(t types.Type) bool {
	return isNamed(t, "net/url", "Userinfo") || isNamed(t, "time", "Location") || isNamed(t, "math/big", "Int")
}

const osSort = "(Array Val Int)"

// Abstract object state of interface values is split into facets, one per named interface that
// declares methods: a pure method declared in interface K reads facet K of its receiver; an
// effectful call through static type I changes the facets of every interface related to I (one's
// method set includes the other's). Values used through unrelated interfaces are assumed not to
// be affected (they are different objects in any sensible program; listed as assumption).
func osKey(iface string) string { return "OS:" + iface }

func (vc *VC) osOfFacet(st *State, facet string, recv Term) Term {
	if !vc.facetNames[facet] {
		vc.facetNames[facet] = true
		vc.needRerun = true // earlier havocs in this pass did not know this facet
	}
	m := vc.getMem(st, osKey(facet), osSort)
	return sx("select", m, recv)
}

// methodUF: name of the uninterpreted function of a pure interface method — by method name and
// signature only, so that one object seen through several interfaces is one abstract object.
func methodUF(m *types.Func) string {
	sig := stripRecv(m.Type().(*types.Signature))
	h := uint32(2166136261)
	for _, c := range []byte(types.TypeString(sig, qualifier)) {
		h = (h ^ uint32(c)) * 16777619
	}
	return fmt.Sprintf("m_%s_%04x", sanitize(m.Name()), h&0xffff)
}

// declaringIface: the named interface in which method m is declared.
func declaringIface(m *types.Func) string { return methodOwner(m) }

func methodNames(t types.Type) map[string]bool {
	out := map[string]bool{}
	t = types.Unalias(t)
	if tp, ok := t.(*types.TypeParam); ok {
		t = tp.Constraint()
	}
	it, ok := t.Underlying().(*types.Interface)
	if !ok {
		return out
	}
	for i := 0; i < it.NumMethods(); i++ {
		out[it.Method(i).Name()] = true
	}
	return out
}

func subsetOf(a, b map[string]bool) bool {
	for k := range a {
		if !b[k] {
			return false
		}
	}
	return true
}

// havocOS: an effectful use of recv through static type t.
func (vc *VC) havocOS(st *State, recv Term, t types.Type) {
	ms := map[string]bool{}
	if t != nil {
		ms = methodNames(t)
	}
	vc.Assumed["interface values used through unrelated interfaces are distinct objects (abstract state facets per method)"] = true
	// method names whose results may change: those of every named interface related to t
	affected := map[string]bool{}
	all := t == nil || len(ms) == 0
	if !all {
		for n := range ms {
			affected[n] = true
		}
		for _, fi := range vc.P.ifaceFacets() {
			if subsetOf(ms, fi.methods) || subsetOf(fi.methods, ms) {
				for n := range fi.methods {
					affected[n] = true
				}
			}
		}
	}
	for _, facet := range sortedKeys(vc.facetNames) {
		if !all && !affected[facet] && facet != "$target" {
			continue
		}
		if facet == "$target" && !all {
			continue
		}
		key := osKey(facet)
		m := vc.getMem(st, key, osSort)
		nm := vc.newMemVersion(key)
		fresh := vc.sc.Fresh("os", "Int")
		vc.sc.Def(Eq(nm, sx("store", m, recv, fresh)))
		st.mem[key] = nm
	}
}

type ifaceFacet struct {
	name    string
	methods map[string]bool
}

// ifaceFacets: every named interface (module and dependencies used by the module) with methods.
func (P *Program) ifaceFacets() []ifaceFacet {
	P.facetOnce.Do(func() {
		seen := map[string]bool{}
		var add func(pkg *types.Package)
		add = func(pkg *types.Package) {
			sc := pkg.Scope()
			for _, n := range sc.Names() {
				tn, ok := sc.Lookup(n).(*types.TypeName)
				if !ok {
					continue
				}
				it, ok := tn.Type().Underlying().(*types.Interface)
				if !ok || it.NumMethods() == 0 {
					continue
				}
				if _, isTP := tn.Type().(*types.TypeParam); isTP {
					continue
				}
				name := qualifier(pkg) + "." + tn.Name()
				if seen[name] {
					continue
				}
				seen[name] = true
				P.facets = append(P.facets, ifaceFacet{name: name, methods: methodNames(tn.Type())})
			}
		}
		for path, sp := range P.SSA {
			if strings.HasPrefix(path, modPath+"/pkg/") {
				add(sp.Pkg)
				for _, imp := range sp.Pkg.Imports() {
					add(imp)
				}
			}
		}
		sort.Slice(P.facets, func(i, j int) bool { return P.facets[i].name < P.facets[j].name })
	})
	return P.facets
}

// ifaceMethodKey: "op.Client.GetID" for a method declared in a named interface.
func ifaceMethodKey(m *types.Func) string {
	return methodOwner(m) + "." + m.Name()
}

var theProgram *Program

// methodOwner: the named interface declaring m; for methods of anonymous interfaces, the unique
// named module interface declaring a method of the same name and signature (so that a client
// seen through interface{ GrantTypes() ... } and through op.Client is the same abstract object).
func methodOwner(m *types.Func) string {
	sig := m.Type().(*types.Signature)
	if r := sig.Recv(); r != nil {
		if n, ok := types.Unalias(r.Type()).(*types.Named); ok {
			return qualifier(n.Obj().Pkg()) + "." + n.Obj().Name()
		}
	}
	if theProgram != nil {
		owner := ""
		cnt := 0
		for path, sp := range theProgram.SSA {
			if !strings.HasPrefix(path, modPath+"/pkg/") {
				continue
			}
			sc := sp.Pkg.Scope()
			for _, name := range sc.Names() {
				tn, ok := sc.Lookup(name).(*types.TypeName)
				if !ok {
					continue
				}
				it, ok := tn.Type().Underlying().(*types.Interface)
				if !ok {
					continue
				}
				for i := 0; i < it.NumExplicitMethods(); i++ {
					em := it.ExplicitMethod(i)
					if em.Name() == m.Name() && types.Identical(stripRecv(em.Type().(*types.Signature)), stripRecv(sig)) {
						owner = qualifier(sp.Pkg) + "." + tn.Name()
						cnt++
					}
				}
			}
		}
		if cnt == 1 {
			return owner
		}
	}
	return "iface"
}

func stripRecv(s *types.Signature) *types.Signature {
	return types.NewSignatureType(nil, nil, nil, s.Params(), s.Results(), s.Variadic())
}

var effectfulPrefixes = []string{"Set", "Write", "Delete", "Save", "Store", "Create", "Revoke", "Terminate", "Append", "Add", "Complete", "Deny", "Close", "End", "Record", "Flush", "Encode", "Decode", "Unmarshal", "Marshal", "Read", "Do", "Next", "Scan", "Lock", "Unlock", "Start", "Handle", "Serve"}

func (vc *VC) methodIsPure(m *types.Func) bool {
	k := ifaceMethodKey(m)
	if ct := vc.C.Ifaces[k]; ct != nil {
		if ct.Pure {
			return true
		}
		if ct.Effectful {
			return false
		}
	}
	sig := m.Type().(*types.Signature)
	if sig.Results().Len() == 0 {
		return false
	}
	for i := 0; i < sig.Params().Len(); i++ {
		pt := sig.Params().At(i).Type()
		if isContextType(pt) {
			return false
		}
		switch types.Unalias(pt).Underlying().(type) {
		case *types.Pointer, *types.Interface, *types.Map, *types.Signature, *types.Chan:
			return false
		}
	}
	for _, p := range effectfulPrefixes {
		if n := m.Name(); strings.HasPrefix(n, p) && (len(n) == len(p) || n[len(p)] >= 'A' && n[len(p)] <= 'Z') {
			return false
		}
	}
	return true
}

// storageFlagKey: the ghost flag set by every failing call into the pluggable storage (C10).
const storageFlagKey = "G:storageFailed"

// raiseStorageFlag: flag' = flag || cond
func (vc *VC) raiseStorageFlag(st *State, cond Term) {
	if _, ok := vc.C.Ghosts["storageFailed"]; !ok {
		return
	}
	if vc.frameActive() && !listsStorageFlag(vc.rootContract) && vc.curFrame != nil {
		// the root contract's explicit frame does not list the flag: no storage call may fail here
		vc.oblig(vc.curFrame, st, "frame", "", "storageFailed", Not(cond), token.NoPos)
	}
	old := vc.getMem(st, storageFlagKey, "Bool")
	nm := vc.newMemVersion(storageFlagKey)
	vc.sc.Def(Eq(nm, Or(old, cond)))
	st.mem[storageFlagKey] = nm
}

// mayRaiseStorageFlag: an opaque callee may have called the storage: flag' is arbitrary but monotone
func (vc *VC) mayRaiseStorageFlag(st *State) {
	if _, ok := vc.C.Ghosts["storageFailed"]; !ok {
		return
	}
	old := vc.getMem(st, storageFlagKey, "Bool")
	nm := vc.newMemVersion(storageFlagKey)
	vc.sc.Def(Implies(old, nm))
	st.mem[storageFlagKey] = nm
}

func (fr *Frame) invoke(st *State, call ssa.CallInstruction) []Term {
	res := fr.invoke0(st, call)
	vc := fr.vc
	vc.curFrame = fr
	m := call.Common().Method
	if vc.C.StorageIfaces[methodOwner(m)] && !vc.C.StorageLookups[ifaceMethodKey(m)] {
		sig := m.Type().(*types.Signature)
		if n := sig.Results().Len(); n > 0 && len(res) == n {
			rt := sig.Results().At(n - 1).Type()
			switch {
			case isErrorType(rt):
				vc.raiseStorageFlag(st, Not(Eq(res[n-1], "nilval")))
			case vc.sortOf(rt) == "Ref" && isNamed(derefType(rt), modPath+"/pkg/oidc", "Error"):
				vc.raiseStorageFlag(st, Not(Eq(res[n-1], "nilref")))
			}
		}
	}
	return res
}

func derefType(t types.Type) types.Type {
	if p, ok := types.Unalias(t).Underlying().(*types.Pointer); ok {
		return p.Elem()
	}
	return t
}

func (fr *Frame) invoke0(st *State, call ssa.CallInstruction) []Term {
	vc := fr.vc
	c := call.Common()
	recv := fr.val(c.Value)
	m := c.Method
	mkey := ifaceMethodKey(m)
	if vc.opts.Safety {
		g := fr.nilGoal(c.Value, recv)
		vc.oblig(fr, st, "nil-deref", "", describe(c.Value, 0)+"."+m.Name()+"()", g, call.Pos())
	}
	var args []Term
	for _, a := range c.Args {
		args = append(args, fr.val(a))
	}
	sig := m.Type().(*types.Signature)
	// coerce args to the interface method's parameter types
	for i := range args {
		if i < sig.Params().Len() {
			args[i] = vc.coerce(args[i], c.Args[i].Type(), sig.Params().At(i).Type())
		}
	}
	{
		var ats []types.Type
		for i := 0; i < sig.Params().Len(); i++ {
			ats = append(ats, sig.Params().At(i).Type())
		}
		vc.recordCallArgs(mkey, args, ats)
	}
	if h, ok := ifaceHandlers[mkey]; ok {
		if res, handled := h(fr, st, call, recv, args); handled {
			return res
		}
	}
	ct := vc.C.Ifaces[mkey]
	if ct != nil && (len(ct.Requires) > 0 || len(ct.Ensures) > 0 || ct.Modifies != nil) {
		return fr.applyIfaceContract(st, call, m, ct, recv, args)
	}
	if vc.methodIsPure(m) {
		return fr.pureMethod(st, m, recv, args)
	}
	// effectful method without contract
	clkBefore := vc.bumpClock(st)
	vc.havocOS(st, recv, c.Value.Type())
	fr.havocArgs(st, c.Args, args, false, clkBefore)
	var res []Term
	for i := 0; i < sig.Results().Len(); i++ {
		rs := vc.sortOf(sig.Results().At(i).Type())
		r := vc.sc.Fresh(fr.prefix+"r_"+m.Name(), rs)
		vc.older(st, r, rs)
		vc.structResult(st, r, sig.Results().At(i).Type())
		res = append(res, r)
	}
	vc.recordCallSyms(mkey, sig, res)
	fr.assumeIdiom(st, sig, res, mkey)
	if n := sig.Results().Len(); n >= 1 && !isErrorType(sig.Results().At(n-1).Type()) {
		for _, r := range res {
			vc.trusted[r] = true
		}
	}
	return res
}

// pureMethod: result is an uninterpreted function of receiver, receiver state and arguments.
func (fr *Frame) pureMethod(st *State, m *types.Func, recv Term, args []Term) []Term {
	vc := fr.vc
	res := vc.pureMethodTerms(st, m, recv, args)
	vc.recordCallSyms(ifaceMethodKey(m), m.Type().(*types.Signature), res)
	fr.pureMethodIdiom(st, m, res)
	// configuration getters: results are trusted like entry-state values (see DESIGN: nil policy)
	for _, r := range res {
		vc.trusted[r] = true
	}
	return res
}

func (fr *Frame) pureMethodIdiom(st *State, m *types.Func, res []Term) {
	fr.assumeIdiom(st, m.Type().(*types.Signature), res, ifaceMethodKey(m))
}

// simpleGetter: when recv is a box of a pointer to a module struct whose method of this name is a
// plain field getter (`return r.f`), the result is the field's value in state st (the real method,
// not an abstraction).
func (vc *VC) simpleGetter(st *State, m *types.Func, recv Term, args []Term) ([]Term, bool) {
	bi, ok := vc.boxes[recv]
	if !ok || len(args) != 0 {
		return nil, false
	}
	pt, ok := types.Unalias(bi.t).Underlying().(*types.Pointer)
	if !ok || !isModuleType(bi.t) {
		return nil, false
	}
	if _, isStruct := structOf(pt.Elem()); !isStruct {
		return nil, false
	}
	sel := vc.P.Prog.MethodSets.MethodSet(bi.t).Lookup(m.Pkg(), m.Name())
	if sel == nil {
		return nil, false
	}
	fn := vc.P.Prog.MethodValue(sel)
	if fn == nil || fn.Synthetic != "" || len(fn.Blocks) != 1 || len(fn.Params) != 1 {
		return nil, false
	}
	var fa *ssa.FieldAddr
	var ld *ssa.UnOp
	for _, in := range fn.Blocks[0].Instrs {
		switch x := in.(type) {
		case *ssa.DebugRef:
		case *ssa.FieldAddr:
			if fa != nil || x.X != fn.Params[0] {
				return nil, false
			}
			fa = x
		case *ssa.UnOp:
			if ld != nil || fa == nil || x.Op != token.MUL || x.X != fa {
				return nil, false
			}
			ld = x
		case *ssa.Return:
			if ld == nil || len(x.Results) != 1 || x.Results[0] != ld {
				return nil, false
			}
			ft := ld.Type()
			addr := vc.fieldAddr(bi.inner, pt.Elem(), fa.Field)
			return []Term{vc.loadT(st, addr, ft)}, true
		default:
			return nil, false
		}
	}
	return nil, false
}

func (vc *VC) pureMethodTerms(st *State, m *types.Func, recv Term, args []Term) []Term {
	if r, ok := vc.simpleGetter(st, m, recv, args); ok {
		return r
	}
	sig := m.Type().(*types.Signature)
	mkey := ifaceMethodKey(m)
	sorts := []string{"Val", "Int"}
	for i := 0; i < sig.Params().Len(); i++ {
		sorts = append(sorts, vc.sortOf(sig.Params().At(i).Type()))
	}
	var res []Term
	osTerm := Term("0")
	if org, imm := vc.C.Immutable[m.Name()]; imm {
		vc.Assumed["getter "+m.Name()+"() of pluggable objects returns the same value throughout a request (immutable, "+org+")"] = true
	} else {
		osTerm = vc.osOfFacet(st, m.Name(), recv)
	}
	all := append([]Term{recv, osTerm}, args...)
	_ = mkey
	for i := 0; i < sig.Results().Len(); i++ {
		rt := sig.Results().At(i).Type()
		f := methodUF(m)
		if sig.Results().Len() > 1 {
			f += fmt.Sprintf("_%d", i)
		}
		vc.sc.DeclFun(f, sorts, vc.sortOf(rt))
		r := sx(f, all...)
		if vc.sortOf(rt) == "Slice" {
			vc.sc.Assume(st.reach, And(sx("<=", "0", sx("s-len", r)), sx("<=", sx("s-len", r), sx("s-cap", r)), sx("<", sx("birth", sx("root", vc.sptr(r))), st.clk),
				Ite(Eq(vc.sptr(r), "nilref"), Eq(sx("s-len", r), "0"), Eq(sx("okind", sx("root", vc.sptr(r))), "1"))))
		}
		res = append(res, r)
	}
	return res
}

// dynamicCall: call through a function value that could not be resolved.
func (fr *Frame) dynamicCall(st *State, call ssa.CallInstruction, args []Term) []Term {
	vc := fr.vc
	c := call.Common()
	sig := c.Signature()
	vc.Abstracted["call through unresolved function value: "+describe(c.Value, 0)] = true
	if ct := vc.C.Externs["dyn:"+describe(c.Value, 0)]; ct != nil && len(ct.Requires) > 0 {
		// what must hold whenever this function value is invoked (checked here, at the call)
		env := vc.callEnv(nil, sig, ct, args, st, nil, "requires of "+ct.Key)
		env.pkg = pkgOfFunc(fr.fn)
		env.lenient = true
		for _, cl := range ct.Requires {
			vc.oblig(fr, st, "pre", "dyn:"+describe(c.Value, 0)+"."+cl.Label, "", env.boolTerm(cl.Expr), call.Pos())
		}
		vc.reportEnvErrors(env)
	}
	clkBefore := vc.bumpClock(st)
	if ct := vc.C.Externs["dyn:"+describe(c.Value, 0)]; ct != nil && ct.Pure {
		// configured callback declared read-only in the specs (assumption, listed)
		vc.Assumed["configured callback "+describe(c.Value, 0)+" does not modify its arguments (assumed spec "+ct.Origin+")"] = true
	} else {
		fr.havocArgs(st, c.Args, args, false, clkBefore)
	}
	var res []Term
	for i := 0; i < sig.Results().Len(); i++ {
		rs := vc.sortOf(sig.Results().At(i).Type())
		r := vc.sc.Fresh(fr.prefix+"r_dyn", rs)
		vc.older(st, r, rs)
		res = append(res, r)
	}
	vc.recordCallSyms("dyn:"+describe(c.Value, 0), sig, res)
	fr.assumeIdiom(st, sig, res, "function value "+describe(c.Value, 0))
	if ct := vc.C.Externs["dyn:"+describe(c.Value, 0)]; ct != nil && len(ct.Ensures) > 0 {
		// assumed contract of the function values that may flow here (each in-repo source is
		// checked against the same clauses under its own key; pluggable sources are assumptions)
		vc.Assumed["assumed contract of function value "+describe(c.Value, 0)+" ("+ct.Origin+")"] = true
		env := vc.callEnv(nil, sig, ct, args, st, nil, "ensures of "+ct.Key)
		env.pkg = pkgOfFunc(fr.fn)
		vc.bindResults(env, sig, res)
		for _, cl := range ct.Ensures {
			vc.sc.Assume(st.reach, env.boolTerm(cl.Expr))
		}
		vc.reportEnvErrors(env)
	}
	return res
}

func (vc *VC) checkSpawn(fr *Frame, st *State, x *ssa.Go) {
	c := x.Common()
	fn := c.StaticCallee()
	if fn == nil {
		return
	}
	if o := fn.Origin(); o != nil {
		fn = o
	}
	ct := vc.C.Funcs[funcKey(fn)]
	if ct == nil {
		return
	}
	var args []Term
	for _, a := range c.Args {
		args = append(args, fr.val(a))
	}
	fr.checkRequires(st, x, fn, ct, args)
}

// ---------- builtins ----------

func (fr *Frame) builtin(st *State, call ssa.CallInstruction, b *ssa.Builtin) []Term {
	vc := fr.vc
	c := call.Common()
	var args []Term
	for _, a := range c.Args {
		args = append(args, fr.val(a))
	}
	switch b.Name() {
	case "len", "cap":
		t := types.Unalias(c.Args[0].Type()).Underlying()
		switch u := t.(type) {
		case *types.Slice:
			if b.Name() == "len" {
				return []Term{sx("s-len", args[0])}
			}
			return []Term{sx("s-cap", args[0])}
		case *types.Basic:
			return []Term{sx("str.len", args[0])}
		case *types.Map:
			_, kin := mapKeys(u)
			ks := vc.sortOf(u.Key())
			cur := vc.rawLoadSort(st, kin, "(Array "+ks+" Bool)", args[0])
			f := "maplen_" + sanitize(typeKey(u.Key()))
			vc.sc.DeclFun(f, []string{"(Array " + ks + " Bool)"}, "Int")
			vc.sc.Axiom(fmt.Sprintf("(= (%s ((as const (Array %s Bool)) false)) 0)", f, ks))
			r := Ite(Eq(args[0], "nilref"), "0", sx(f, cur))
			n := vc.sc.Fresh(fr.prefix+"len", "Int")
			vc.sc.Def(And(Eq(n, r), sx(">=", n, "0")))
			return []Term{n}
		case *types.Pointer:
			if at, ok := u.Elem().Underlying().(*types.Array); ok {
				return []Term{IntLit(at.Len())}
			}
		case *types.Array:
			return []Term{IntLit(u.Len())}
		}
		r := vc.sc.Fresh(fr.prefix+"len", "Int")
		vc.sc.Def(sx(">=", r, "0"))
		return []Term{r}
	case "append":
		return []Term{fr.appendOp(st, call, c.Args, args)}
	case "copy":
		vc.Abstracted["copy builtin (destination elements havoced)"] = true
		clk := st.clk
		fr.havocArgs(st, c.Args[:1], args[:1], false, clk)
		r := vc.sc.Fresh(fr.prefix+"copied", "Int")
		vc.sc.Def(sx(">=", r, "0"))
		return []Term{r}
	case "delete":
		mt, ok := types.Unalias(c.Args[0].Type()).Underlying().(*types.Map)
		if ok {
			ks := vc.sortOf(mt.Key())
			_, kin := mapKeys(mt)
			isort := "(Array " + ks + " Bool)"
			cur := vc.rawLoadSort(st, kin, isort, args[0])
			fr.frameObligMap(st, c.Args[0], args[0], call.Pos())
			vc.rawStoreSort(st, kin, isort, args[0], sx("store", cur, args[1], "false"))
		}
		return nil
	case "min", "max":
		r := args[0]
		for _, a := range args[1:] {
			if b.Name() == "min" {
				r = Ite(sx("<=", r, a), r, a)
			} else {
				r = Ite(sx(">=", r, a), r, a)
			}
		}
		return []Term{r}
	case "print", "println":
		return nil
	case "recover":
		return []Term{"nilval"}
	case "close":
		return nil
	}
	vc.errorf("%s: unsupported builtin %s", fr.key, b.Name())
	var res []Term
	sig := c.Signature()
	for i := 0; i < sig.Results().Len(); i++ {
		res = append(res, vc.sc.Fresh(fr.prefix+"bi", vc.sortOf(sig.Results().At(i).Type())))
	}
	return res
}

type leafLoc struct {
	key  string
	sort string
	t    types.Type
	addr func(elem Term) Term
}

// leafLocs enumerates the scalar locations inside a location of type t.
func (vc *VC) leafLocs(t types.Type, addr func(Term) Term, out *[]leafLoc) {
	if s, ok := structOf(t); ok {
		for i := 0; i < s.NumFields(); i++ {
			i := i
			tt := t
			vc.leafLocs(s.Field(i).Type(), func(e Term) Term { return vc.fieldAddr(addr(e), tt, i) }, out)
		}
		return
	}
	if _, ok := types.Unalias(t).Underlying().(*types.Array); ok {
		return
	}
	*out = append(*out, leafLoc{key: vc.memKey(t), sort: vc.sortOf(t), t: t, addr: addr})
}

func (vc *VC) needFieldAxioms(t types.Type) {
	// quantified inverse facts for field address functions of struct type t (used under binders)
	if s, ok := structOf(t); ok {
		for i := 0; i < s.NumFields(); i++ {
			name := fmt.Sprintf("fld_%s_%d", symKey(t), i)
			vc.sc.DeclFun(name, []string{"Ref"}, "Ref")
			tag := vc.fieldTag(name)
			vc.sc.Axiom(fmt.Sprintf("(forall ((?p Ref)) (! (and (= (fbase (%s ?p)) ?p) (= (ftag (%s ?p)) %d) (= (root (%s ?p)) (root ?p))) :pattern ((%s ?p))))", name, name, tag, name, name))
			vc.needFieldAxioms(s.Field(i).Type())
		}
	}
}

// appendOp models append(s, t...) as a copy into a fresh backing array (aliasing through spare
// capacity is not modelled; reported as an abstraction).
func (fr *Frame) appendOp(st *State, call ssa.CallInstruction, argVals []ssa.Value, args []Term) Term {
	vc := fr.vc
	vc.Abstracted["append modelled as copy to a fresh backing array (aliasing through spare capacity not modelled)"] = true
	s := args[0]
	stt, ok := types.Unalias(argVals[0].Type()).Underlying().(*types.Slice)
	if !ok {
		return vc.sc.Fresh(fr.prefix+"append", "Slice")
	}
	et := stt.Elem()
	if vc.frameActive() {
		// append writes into the backing array of its first argument when there is spare capacity
		g := Or(Eq(sx("s-len", s), sx("s-cap", s)), vc.inFrame(vc.sptr(s)))
		vc.oblig(fr, st, "frame", "", "append-in-place:"+describe(argVals[0], 0), g, call.Pos())
	}
	nb := vc.alloc(st, fr.prefix+"appbase")
	t := args[1]
	var tlen Term
	tIsString := vc.sortOf(argVals[1].Type()) == "String"
	if tIsString {
		tlen = sx("str.len", t)
	} else {
		tlen = sx("s-len", t)
	}
	// static length of the appended part when it is a literal varargs slice
	constN := int64(-1)
	if sl, ok := argVals[1].(*ssa.Slice); ok && sl.Low == nil && sl.High == nil {
		if al, ok := sl.X.(*ssa.Alloc); ok {
			if at, ok := al.Type().Underlying().(*types.Pointer).Elem().Underlying().(*types.Array); ok {
				constN = at.Len()
			}
		}
	}
	if c, ok := argVals[1].(*ssa.Const); ok && c.Value == nil {
		constN = 0
	}
	newLen := vc.sc.Fresh(fr.prefix+"applen", "Int")
	vc.sc.Def(Eq(newLen, sx("+", sx("s-len", s), tlen)))
	newCap := vc.sc.Fresh(fr.prefix+"appcap", "Int")
	vc.sc.Def(sx(">=", newCap, newLen))
	res := vc.sc.Fresh(fr.prefix+"appended", "Slice")
	vc.sc.Def(Eq(res, vc.mkSlice(nb, newLen, newCap)))
	if isByteSlice(argVals[0].Type()) {
		if tIsString {
			vc.sc.Def(Eq(sx("bstr", res), sx("str.++", sx("bstr", s), t)))
		} else {
			vc.sc.Def(Eq(sx("bstr", res), sx("str.++", sx("bstr", s), sx("bstr", t))))
		}
		return res
	}
	var leaves []leafLoc
	vc.leafLocs(et, func(e Term) Term { return e }, &leaves)
	if _, isStruct := structOf(et); isStruct {
		vc.needFieldAxioms(et)
	}
	vc.needElemAxioms()
	// one new memory version per key (several leaves may share a key, e.g. the string fields of a struct)
	olds, news := map[string]Term{}, map[string]Term{}
	for _, lf := range leaves {
		if _, ok := news[lf.key]; ok {
			continue
		}
		old := vc.getMem(st, lf.key, "(Array Ref "+lf.sort+")")
		nm := vc.newMemVersion(lf.key)
		st.mem[lf.key] = nm
		olds[lf.key], news[lf.key] = old, nm
		nbb := nb
		vc.havocs = append(vc.havocs, havocEvent{key: lf.key, old: old, new: nm, pos: len(vc.sc.items), pred: func(a Term) Term { return Eq(sx("root", a), nbb) }})
	}
	for _, lf := range leaves {
		old, nm := olds[lf.key], news[lf.key]
		// old part
		src := lf.addr(sx("elem", vc.sptr(s), "?i"))
		dst := lf.addr(sx("elem", nb, "?i"))
		vc.sc.Def(fmt.Sprintf("(forall ((?i Int)) (! (=> (and (<= 0 ?i) (< ?i (s-len %s))) (= (select %s %s) (select %s %s))) :pattern (%s) :pattern (%s)))", s, nm, dst, old, src, dst, src))
		// appended part
		if constN >= 0 && constN <= 6 {
			for j := int64(0); j < constN; j++ {
				srcj := lf.addr(vc.elemAddr(vc.sptr(t), IntLit(j)))
				dstj := lf.addr(vc.elemAddr(nb, simplifyAdd(sx("s-len", s), IntLit(j))))
				vc.noteAddr(lf.key, srcj)
				vc.noteAddr(lf.key, dstj)
				vc.sc.Def(Eq(sx("select", nm, dstj), sx("select", old, srcj)))
			}
		} else {
			src2 := lf.addr(sx("elem", vc.sptr(t), "?j"))
			dst2 := lf.addr(sx("elem", nb, sx("+", sx("s-len", s), "?j")))
			vc.sc.Def(fmt.Sprintf("(forall ((?j Int)) (! (=> (and (<= 0 ?j) (< ?j (s-len %s))) (= (select %s %s) (select %s %s))) :pattern (%s)))", t, nm, dst2, old, src2, src2))
		}
	}
	return res
}

var _ = token.NoPos

package main

import (
	"fmt"
	"go/constant"
	"go/types"
	"strings"

	"golang.org/x/tools/go/ssa"
)

// CT is the type of a contract expression: a Go type when known, and always an SMT sort.
type CT struct {
	T    types.Type
	Sort string // "nil" for the untyped nil literal
}

type cval struct {
	t  Term
	ct CT
}

type Env struct {
	vc    *VC
	st    *State
	old   *State
	names map[string]cval
	addrs map[string]cval // named locals living in memory cells: their addresses (for addr(x))
	bound map[string]cval
	pkg   *types.Package
	where string
	err   []string
	pats  *[]Term // candidate E-matching patterns collected under a binder
	// lenient: valid(x) holds for terms covered by the nil policy (entry parameters, getter
	// results, initialised globals) — used for callee preconditions at call sites
	lenient bool
}

func (e *Env) errorf(f string, a ...any) {
	e.err = append(e.err, fmt.Sprintf("%s: %s", e.where, fmt.Sprintf(f, a...)))
}

func (e *Env) with(st *State) *Env {
	n := *e
	n.st = st
	return &n
}

func (vc *VC) ctOf(t types.Type) CT { return CT{T: t, Sort: vc.sortOf(t)} }

// resolveTypeName resolves a type written in a contract: int, string, bool, error, any, Ref, or
// a (qualified) Go type name, optionally prefixed by * or [].
func (e *Env) resolveTypeName(name string) CT {
	vc := e.vc
	switch name {
	case "int":
		return CT{T: types.Typ[types.Int], Sort: "Int"}
	case "string":
		return CT{T: types.Typ[types.String], Sort: "String"}
	case "bool":
		return CT{T: types.Typ[types.Bool], Sort: "Bool"}
	case "error":
		return vc.ctOf(types.Universe.Lookup("error").Type())
	case "any":
		return vc.ctOf(types.Universe.Lookup("any").Type())
	case "Ref":
		return CT{Sort: "Ref"}
	case "Val":
		return CT{Sort: "Val"}
	case "time":
		return CT{Sort: "Int"}
	}
	if t := e.lookupType(name); t != nil {
		return vc.ctOf(t)
	}
	e.errorf("unknown type %q", name)
	return CT{Sort: "Int"}
}

func (e *Env) lookupType(name string) types.Type {
	if strings.HasPrefix(name, "*") {
		if t := e.lookupType(name[1:]); t != nil {
			return types.NewPointer(t)
		}
		return nil
	}
	if strings.HasPrefix(name, "[]") {
		if t := e.lookupType(name[2:]); t != nil {
			return types.NewSlice(t)
		}
		return nil
	}
	if strings.HasPrefix(name, "map[") {
		if i := strings.Index(name, "]"); i > 0 {
			k, v := e.lookupType(name[4:i]), e.lookupType(name[i+1:])
			if k != nil && v != nil {
				return types.NewMap(k, v)
			}
		}
		return nil
	}
	switch name {
	case "float64":
		return types.Typ[types.Float64]
	case "int":
		return types.Typ[types.Int]
	case "int64":
		return types.Typ[types.Int64]
	case "string":
		return types.Typ[types.String]
	case "bool":
		return types.Typ[types.Bool]
	case "error":
		return types.Universe.Lookup("error").Type()
	case "any":
		return types.Universe.Lookup("any").Type()
	}
	pkg := e.pkg
	if i := strings.Index(name, "."); i >= 0 {
		pkg = e.vc.P.pkgByShort(name[:i])
		name = name[i+1:]
	}
	if pkg == nil {
		return nil
	}
	if o, ok := pkg.Scope().Lookup(name).(*types.TypeName); ok {
		return o.Type()
	}
	return nil
}

func (P *Program) pkgByShort(short string) *types.Package {
	var found *types.Package
	for path, sp := range P.SSA {
		if shortPkg(path) == short {
			if strings.HasPrefix(path, modPath) {
				return sp.Pkg
			}
			if found == nil || len(path) < len(found.Path()) {
				found = sp.Pkg
			}
		}
	}
	if found != nil {
		return found
	}
	for path, sp := range P.SSA {
		if sp.Pkg.Name() == short && !strings.HasPrefix(path, modPath) {
			if found == nil || len(path) < len(found.Path()) {
				found = sp.Pkg
			}
		}
	}
	return found
}

func (e *Env) boolTerm(x *Expr) Term {
	e.vc.inContract++
	defer func() { e.vc.inContract-- }()
	v := e.eval(x)
	if v.ct.Sort != "Bool" {
		e.errorf("expected boolean, got %s in %s", v.ct.Sort, x)
		return "true"
	}
	return v.t
}

func (e *Env) eval(x *Expr) cval {
	vc := e.vc
	switch x.Op {
	case "lit-int":
		return cval{BigIntLit(x.Int), CT{T: types.Typ[types.Int], Sort: "Int"}}
	case "lit-str":
		return cval{StrLit(x.Str), CT{T: types.Typ[types.String], Sort: "String"}}
	case "lit-bool":
		if x.Bool {
			return cval{"true", CT{Sort: "Bool"}}
		}
		return cval{"false", CT{Sort: "Bool"}}
	case "nil":
		return cval{"nil", CT{Sort: "nil"}}
	case "id":
		return e.evalID(x.Name)
	case "old":
		if e.old == nil {
			e.errorf("old() not available here")
			return e.eval(x.X)
		}
		return e.with(e.old).eval(x.X)
	case "unary":
		v := e.eval(x.X)
		switch x.Name {
		case "!":
			return cval{Not(v.t), CT{Sort: "Bool"}}
		case "-":
			return cval{sx("-", v.t), v.ct}
		case "*":
			if v.ct.T != nil {
				if pt, ok := types.Unalias(v.ct.T).Underlying().(*types.Pointer); ok {
					return cval{vc.loadT(e.st, v.t, pt.Elem()), vc.ctOf(pt.Elem())}
				}
			}
			e.errorf("cannot dereference %s", x.X)
			return v
		}
	case "binary":
		return e.evalBinary(x)
	case "forall", "exists":
		ne := *e
		ne.bound = map[string]cval{}
		for k, v := range e.bound {
			ne.bound[k] = v
		}
		var binders []string
		for _, v := range x.Vars {
			ct := e.resolveTypeName(v.Type)
			sym := "?" + v.Name
			ne.bound[v.Name] = cval{sym, ct}
			binders = append(binders, "("+sym+" "+ct.Sort+")")
		}
		vc.needElemAxioms()
		var cands []Term
		ne.pats = &cands
		body := ne.boolTerm(x.X)
		e.err = ne.err
		if e.pats != nil {
			*e.pats = append(*e.pats, cands...)
		}
		pat := ""
		seen := map[Term]bool{}
		for _, c := range cands {
			ok := true
			for _, v := range x.Vars {
				if !strings.Contains(c, "?"+v.Name+")") && !strings.Contains(c, "?"+v.Name+" ") {
					ok = false
				}
			}
			if ok && !seen[c] {
				seen[c] = true
				pat += " :pattern (" + c + ")"
			}
		}
		if pat != "" {
			body = "(! " + body + pat + ")"
		}
		return cval{fmt.Sprintf("(%s (%s) %s)", x.Op, strings.Join(binders, " "), body), CT{Sort: "Bool"}}
	case "field":
		return e.evalField(x)
	case "index":
		return e.evalIndex(x)
	case "call":
		return e.evalCall(x)
	case "mcall":
		return e.evalMethod(x)
	}
	e.errorf("cannot evaluate %s", x)
	return cval{"true", CT{Sort: "Bool"}}
}

func (e *Env) evalID(name string) cval {
	vc := e.vc
	if v, ok := e.bound[name]; ok {
		return v
	}
	if v, ok := e.names[name]; ok {
		return v
	}
	switch name {
	case "wallclock":
		return cval{vc.getMem(e.st, "G:wallclock", "Int"), CT{Sort: "Int"}}
	case "ZEROTIME":
		return cval{zeroTime, CT{Sort: "Int"}}
	case "SECOND":
		return cval{"1000000000", CT{Sort: "Int"}}
	}
	if g, ok := vc.C.Ghosts[name]; ok && !g.IsMap {
		ct := e.resolveTypeName(g.Type)
		return cval{vc.getMem(e.st, "G:"+name, ct.Sort), ct}
	}
	if sf, ok := vc.C.Specs[name]; ok && len(sf.Params) == 0 {
		return e.applySpec(sf, nil)
	}
	if e.pkg != nil {
		if o := e.pkg.Scope().Lookup(name); o != nil {
			return e.objVal(o)
		}
	}
	e.errorf("unknown identifier %q", name)
	return cval{"0", CT{Sort: "Int"}}
}

func (e *Env) objVal(o types.Object) cval {
	vc := e.vc
	switch o := o.(type) {
	case *types.Const:
		ct := vc.ctOf(o.Type())
		switch o.Val().Kind() {
		case constant.String:
			return cval{StrLit(constant.StringVal(o.Val())), ct}
		case constant.Int:
			return cval{BigIntLit(o.Val().ExactString()), ct}
		case constant.Bool:
			if constant.BoolVal(o.Val()) {
				return cval{"true", ct}
			}
			return cval{"false", ct}
		}
	case *types.Var:
		sp := vc.P.SSA[o.Pkg().Path()]
		if sp != nil {
			if g, ok := sp.Members[o.Name()].(*ssa.Global); ok {
				if t, ok := vc.stableGlobal(g); ok {
					return cval{t, vc.ctOf(o.Type())}
				}
				fr0 := &Frame{vc: vc, vals: map[ssa.Value]Term{}}
				addr := fr0.val(g)
				return cval{vc.loadT(e.st, addr, o.Type()), vc.ctOf(o.Type())}
			}
		}
	case *types.Func:
		sp := vc.P.SSA[o.Pkg().Path()]
		if sp != nil {
			if f := sp.Func(o.Name()); f != nil {
				return cval{vc.fnTerm(f), vc.ctOf(o.Type())}
			}
		}
	}
	e.errorf("cannot use %s in a contract", o.Name())
	return cval{"0", CT{Sort: "Int"}}
}

// adapt makes two operands comparable (nil literal, boxing of concrete values against interfaces).
func (e *Env) adapt(a, b cval) (cval, cval) {
	vc := e.vc
	fix := func(n cval, other cval) cval {
		if n.ct.Sort != "nil" {
			return n
		}
		switch other.ct.Sort {
		case "Ref":
			return cval{"nilref", other.ct}
		case "Val":
			return cval{"nilval", other.ct}
		case "Slice":
			return cval{"nilslice", other.ct}
		}
		return cval{"nilref", CT{Sort: "Ref"}}
	}
	a, b = fix(a, b), fix(b, a)
	if a.ct.Sort == "Val" && b.ct.Sort != "Val" && b.ct.T != nil {
		b = cval{vc.box(b.t, b.ct.T), a.ct}
	} else if b.ct.Sort == "Val" && a.ct.Sort != "Val" && a.ct.T != nil {
		a = cval{vc.box(a.t, a.ct.T), b.ct}
	}
	return a, b
}

func (e *Env) evalBinary(x *Expr) cval {
	B := CT{Sort: "Bool"}
	switch x.Name {
	case "&&":
		return cval{And(e.boolTerm(x.Args[0]), e.boolTerm(x.Args[1])), B}
	case "||":
		return cval{Or(e.boolTerm(x.Args[0]), e.boolTerm(x.Args[1])), B}
	case "==>":
		return cval{Implies(e.boolTerm(x.Args[0]), e.boolTerm(x.Args[1])), B}
	case "<==>":
		return cval{Eq(e.boolTerm(x.Args[0]), e.boolTerm(x.Args[1])), B}
	}
	a, b := e.eval(x.Args[0]), e.eval(x.Args[1])
	a, b = e.adapt(a, b)
	switch x.Name {
	case "==", "!=":
		if a.ct.Sort != b.ct.Sort {
			e.errorf("comparing %s with %s in %s", a.ct.Sort, b.ct.Sort, x)
			return cval{"true", B}
		}
		if a.ct.Sort == "Slice" && (b.t == "nilslice" || a.t == "nilslice") {
			// s == nil
			other := a
			if a.t == "nilslice" {
				other = b
			}
			t := Eq(e.vc.sptr(other.t), "nilref")
			if x.Name == "!=" {
				t = Not(t)
			}
			return cval{t, B}
		}
		t := Eq(a.t, b.t)
		if x.Name == "!=" {
			t = Not(t)
		}
		return cval{t, B}
	case "<", "<=", ">", ">=":
		if a.ct.Sort == "String" {
			switch x.Name {
			case "<":
				return cval{sx("str.<", a.t, b.t), B}
			case "<=":
				return cval{sx("str.<=", a.t, b.t), B}
			case ">":
				return cval{sx("str.<", b.t, a.t), B}
			default:
				return cval{sx("str.<=", b.t, a.t), B}
			}
		}
		return cval{sx(x.Name, a.t, b.t), B}
	case "+":
		if a.ct.Sort == "String" {
			return cval{sx("str.++", a.t, b.t), a.ct}
		}
		return cval{sx("+", a.t, b.t), a.ct}
	case "-", "*":
		return cval{sx(x.Name, a.t, b.t), a.ct}
	case "/":
		// Go's integer division truncates toward zero
		return cval{Ite(sx(">=", a.t, "0"), sx("div", a.t, b.t), sx("-", sx("div", sx("-", a.t), b.t))), a.ct}
	case "%":
		q := Ite(sx(">=", a.t, "0"), sx("div", a.t, b.t), sx("-", sx("div", sx("-", a.t), b.t)))
		return cval{sx("-", a.t, sx("*", b.t, q)), a.ct}
	}
	e.errorf("unknown operator %s", x.Name)
	return cval{"true", B}
}

func (e *Env) evalField(x *Expr) cval {
	vc := e.vc
	// package-qualified identifier?
	if x.X.Op == "id" {
		if _, isLocal := e.names[x.X.Name]; !isLocal {
			if _, isBound := e.bound[x.X.Name]; !isBound {
				if pkg := vc.P.pkgByShort(x.X.Name); pkg != nil && (e.pkg == nil || e.pkg.Scope().Lookup(x.X.Name) == nil) {
					if o := pkg.Scope().Lookup(x.Name); o != nil {
						return e.objVal(o)
					}
					e.errorf("unknown %s.%s", x.X.Name, x.Name)
					return cval{"0", CT{Sort: "Int"}}
				}
			}
		}
	}
	base := e.eval(x.X)
	if base.ct.T == nil {
		e.errorf("field %s of untyped expression %s", x.Name, x.X)
		return cval{"0", CT{Sort: "Int"}}
	}
	return e.selectField(base, x.Name, x)
}

func (e *Env) selectField(base cval, name string, x *Expr) cval {
	vc := e.vc
	obj, path, _ := types.LookupFieldOrMethod(base.ct.T, true, e.pkgOfType(base.ct.T), name)
	fv, ok := obj.(*types.Var)
	if !ok || !fv.IsField() {
		e.errorf("no field %s in %s", name, typeKey(base.ct.T))
		return cval{"0", CT{Sort: "Int"}}
	}
	cur := base
	for pi, idx := range path {
		t := types.Unalias(cur.ct.T)
		if pt, ok := t.Underlying().(*types.Pointer); ok {
			st := pt.Elem().Underlying().(*types.Struct)
			ft := st.Field(idx).Type()
			addr := vc.fieldAddr(cur.t, pt.Elem(), idx)
			if _, isStruct := structOf(ft); isStruct && pi < len(path)-1 {
				// more path follows through an embedded struct value: stay in address mode
				cur = cval{addr, CT{T: types.NewPointer(ft), Sort: "Ref"}}
				continue
			}
			cur = cval{vc.loadT(e.st, addr, ft), vc.ctOf(ft)}
			continue
		}
		st, ok := t.Underlying().(*types.Struct)
		if !ok {
			e.errorf("field path through non-struct %s", typeKey(t))
			return cval{"0", CT{Sort: "Int"}}
		}
		ft := st.Field(idx).Type()
		cur = cval{sx(fmt.Sprintf("%s_f%d", vc.sortOf(t), idx), cur.t), vc.ctOf(ft)}
	}
	return cur
}

func (e *Env) pkgOfType(t types.Type) *types.Package {
	t = types.Unalias(t)
	if p, ok := t.Underlying().(*types.Pointer); ok {
		t = types.Unalias(p.Elem())
	}
	if n, ok := t.(*types.Named); ok && n.Obj().Pkg() != nil {
		return n.Obj().Pkg()
	}
	return e.pkg
}

// fieldAddrOf returns the address term of x (a field / deref / index expression), for modifies clauses.
func (e *Env) addrOf(x *Expr) (Term, types.Type, bool) {
	vc := e.vc
	switch x.Op {
	case "id":
		if a, ok := e.addrs[x.Name]; ok {
			return a.t, a.ct.T, true
		}
	case "field":
		base := e.eval(x.X)
		if base.ct.T == nil {
			return "", nil, false
		}
		obj, path, _ := types.LookupFieldOrMethod(base.ct.T, true, e.pkgOfType(base.ct.T), x.Name)
		fv, ok := obj.(*types.Var)
		if !ok || !fv.IsField() {
			e.errorf("no field %s", x.Name)
			return "", nil, false
		}
		cur := base
		for i, idx := range path {
			t := types.Unalias(cur.ct.T)
			pt, ok := t.Underlying().(*types.Pointer)
			if !ok {
				e.errorf("modifies through struct value not supported: %s", x)
				return "", nil, false
			}
			st := pt.Elem().Underlying().(*types.Struct)
			ft := st.Field(idx).Type()
			addr := vc.fieldAddr(cur.t, pt.Elem(), idx)
			if i == len(path)-1 {
				return addr, ft, true
			}
			if _, isPtr := types.Unalias(ft).Underlying().(*types.Pointer); isPtr {
				cur = cval{vc.loadT(e.st, addr, ft), vc.ctOf(ft)}
			} else {
				cur = cval{addr, CT{T: types.NewPointer(ft), Sort: "Ref"}}
			}
		}
	case "unary":
		if x.Name == "*" {
			v := e.eval(x.X)
			if v.ct.T != nil {
				if pt, ok := types.Unalias(v.ct.T).Underlying().(*types.Pointer); ok {
					return v.t, pt.Elem(), true
				}
			}
		}
	case "index":
		base := e.eval(x.X)
		i := e.eval(x.Args[0])
		if base.ct.T != nil {
			if sl, ok := types.Unalias(base.ct.T).Underlying().(*types.Slice); ok {
				return vc.elemAddr(vc.sptr(base.t), i.t), sl.Elem(), true
			}
		}
	}
	e.errorf("not an addressable location: %s", x)
	return "", nil, false
}

func (e *Env) evalIndex(x *Expr) cval {
	vc := e.vc
	// ghost map?
	if x.X.Op == "id" {
		if g, ok := vc.C.Ghosts[x.X.Name]; ok && g.IsMap {
			k := e.eval(x.Args[0])
			kt := e.resolveTypeName(g.Key)
			vt := e.resolveTypeName(g.Type)
			if k.ct.Sort != kt.Sort && kt.Sort == "Val" && k.ct.T != nil {
				k = cval{vc.box(k.t, k.ct.T), kt}
			}
			m := vc.getMem(e.st, "G:"+g.Name, "(Array "+kt.Sort+" "+vt.Sort+")")
			return cval{sx("select", m, k.t), vt}
		}
	}
	base := e.eval(x.X)
	i := e.eval(x.Args[0])
	if base.ct.Sort == "String" {
		return cval{sx("str.to_code", sx("str.at", base.t, i.t)), CT{T: types.Typ[types.Int], Sort: "Int"}}
	}
	if base.ct.T != nil {
		switch u := types.Unalias(base.ct.T).Underlying().(type) {
		case *types.Slice:
			addr := vc.elemAddr(vc.sptr(base.t), i.t)
			if e.pats != nil && strings.Contains(addr, "?") {
				*e.pats = append(*e.pats, addr)
			}
			return cval{vc.loadT(e.st, addr, u.Elem()), vc.ctOf(u.Elem())}
		case *types.Map:
			ks, vs := vc.sortOf(u.Key()), vc.sortOf(u.Elem())
			kv, _ := mapKeys(u)
			cur := vc.rawLoadSort(e.st, kv, "(Array "+ks+" "+vs+")", base.t)
			return cval{sx("select", cur, i.t), vc.ctOf(u.Elem())}
		}
	}
	e.errorf("cannot index %s", x.X)
	return cval{"0", CT{Sort: "Int"}}
}

func (e *Env) evalMethod(x *Expr) cval {
	vc := e.vc
	recv := e.eval(x.X)
	if recv.ct.T == nil {
		e.errorf("method call on untyped %s", x.X)
		return cval{"0", CT{Sort: "Int"}}
	}
	obj, _, _ := types.LookupFieldOrMethod(recv.ct.T, true, e.pkgOfType(recv.ct.T), x.Name)
	m, ok := obj.(*types.Func)
	if !ok {
		e.errorf("no method %s on %s", x.Name, typeKey(recv.ct.T))
		return cval{"0", CT{Sort: "Int"}}
	}
	var args []Term
	sig := m.Type().(*types.Signature)
	for i, a := range x.Args {
		v := e.eval(a)
		if i < sig.Params().Len() && v.ct.T != nil {
			v.t = vc.coerce(v.t, v.ct.T, sig.Params().At(i).Type())
		}
		args = append(args, v.t)
	}
	if recv.ct.Sort == "Val" {
		rs := vc.pureMethodTerms(e.st, m, recv.t, args)
		if len(rs) == 0 {
			e.errorf("method %s has no result", x.Name)
			return cval{"0", CT{Sort: "Int"}}
		}
		return cval{rs[0], vc.ctOf(sig.Results().At(0).Type())}
	}
	// concrete receiver: view it through the interface method of the same name when boxed
	bx := vc.box(recv.t, recv.ct.T)
	rs := vc.pureMethodTerms(e.st, m, bx, args)
	if len(rs) == 0 {
		e.errorf("method %s has no result", x.Name)
		return cval{"0", CT{Sort: "Int"}}
	}
	return cval{rs[0], vc.ctOf(sig.Results().At(0).Type())}
}

func (vc *VC) pureMethodTermsNamed(st *State, mkey string, sig *types.Signature, recv Term, args []Term) []Term {
	sorts := []string{"Val", "Int"}
	for i := 0; i < sig.Params().Len(); i++ {
		sorts = append(sorts, vc.sortOf(sig.Params().At(i).Type()))
	}
	var res []Term
	all := append([]Term{recv, vc.osOfFacet(st, mkey, recv)}, args...)
	for i := 0; i < sig.Results().Len(); i++ {
		f := "m_" + sanitize(mkey)
		if sig.Results().Len() > 1 {
			f += fmt.Sprintf("_%d", i)
		}
		vc.sc.DeclFun(f, sorts, vc.sortOf(sig.Results().At(i).Type()))
		res = append(res, sx(f, all...))
	}
	return res
}

func (e *Env) applySpec(sf *SpecFunc, args []cval) cval {
	vc := e.vc
	if sf.Pkg != "" {
		if hp := vc.P.pkgByShort(sf.Pkg); hp != nil && hp != e.pkg {
			// evaluate the spec function in its home package (type and constant names)
			ne := *e
			ne.pkg = hp
			r := ne.applySpec(sf, args)
			e.err = ne.err
			return r
		}
	}
	ret := e.resolveTypeName(sf.Ret)
	if len(args) != len(sf.Params) {
		e.errorf("spec func %s expects %d arguments", sf.Name, len(sf.Params))
		return cval{"true", ret}
	}
	if sf.Body != nil {
		ne := *e
		ne.names = map[string]cval{}
		for k, v := range e.names {
			ne.names[k] = v
		}
		for i, p := range sf.Params {
			pct := e.resolveTypeName(p.Type)
			a := args[i]
			if a.ct.Sort == "nil" {
				a, _ = e.adapt(a, cval{"", pct})
			}
			if a.ct.Sort != pct.Sort && pct.Sort == "Val" && a.ct.T != nil {
				a = cval{vc.box(a.t, a.ct.T), pct}
			}
			if a.ct.T == nil {
				a.ct = pct
			}
			ne.names[p.Name] = a
		}
		ne.where = e.where + " in spec " + sf.Name
		r := ne.eval(sf.Body)
		e.err = ne.err
		return r
	}
	var sorts []string
	var ts []Term
	for i, p := range sf.Params {
		pct := e.resolveTypeName(p.Type)
		a := args[i]
		if a.ct.Sort == "nil" {
			a, _ = e.adapt(a, cval{"", pct})
		}
		if a.ct.Sort != pct.Sort && pct.Sort == "Val" && a.ct.T != nil {
			a = cval{vc.box(a.t, a.ct.T), pct}
		}
		if a.ct.Sort != pct.Sort {
			e.errorf("spec func %s: argument %d has sort %s, want %s", sf.Name, i, a.ct.Sort, pct.Sort)
		}
		sorts = append(sorts, pct.Sort)
		ts = append(ts, a.t)
	}
	name := "spec_" + sanitize(sf.Name)
	if len(ts) == 0 {
		vc.sc.DeclConst(name, ret.Sort)
		return cval{name, ret}
	}
	vc.sc.DeclFun(name, sorts, ret.Sort)
	app := sx(name, ts...)
	if e.pats != nil && strings.Contains(app, "?") {
		*e.pats = append(*e.pats, app)
	}
	return cval{app, ret}
}

func (e *Env) evalCall(x *Expr) cval {
	vc := e.vc
	B := CT{Sort: "Bool"}
	I := CT{T: types.Typ[types.Int], Sort: "Int"}
	S := CT{T: types.Typ[types.String], Sort: "String"}
	argv := func(i int) cval {
		if i >= len(x.Args) {
			e.errorf("%s: missing argument %d", x.Name, i)
			return cval{"0", I}
		}
		return e.eval(x.Args[i])
	}
	switch x.Name {
	case "len":
		a := argv(0)
		switch a.ct.Sort {
		case "Slice":
			return cval{sx("s-len", a.t), I}
		case "String":
			return cval{sx("str.len", a.t), I}
		}
		if a.ct.T != nil {
			if u, ok := types.Unalias(a.ct.T).Underlying().(*types.Map); ok {
				_, kin := mapKeys(u)
				ks := vc.sortOf(u.Key())
				cur := vc.rawLoadSort(e.st, kin, "(Array "+ks+" Bool)", a.t)
				f := "maplen_" + sanitize(typeKey(u.Key()))
				vc.sc.DeclFun(f, []string{"(Array " + ks + " Bool)"}, "Int")
				vc.sc.Axiom(fmt.Sprintf("(= (%s ((as const (Array %s Bool)) false)) 0)", f, ks))
				vc.sc.Axiom(fmt.Sprintf("(forall ((?ml (Array %s Bool))) (! (>= (%s ?ml) 0) :pattern ((%s ?ml))))", ks, f, f))
				return cval{Ite(Eq(a.t, "nilref"), "0", sx(f, cur)), I}
			}
		}
		e.errorf("len of %s", a.ct.Sort)
		return cval{"0", I}
	case "cap":
		a := argv(0)
		return cval{sx("s-cap", a.t), I}
	case "valid":
		a := argv(0)
		if e.lenient && vc.trusted[a.t] {
			return cval{"true", B}
		}
		if e.lenient {
			if _, ok := vc.prov[a.t]; !ok {
				// a load written in the contract itself (e.g. s.provider): same nil policy as for loads in code
				if p := vc.provOfSelect(a.t, a.ct.Sort); p != "" {
					vc.prov[a.t] = p
				}
			}
			if p, ok := vc.prov[a.t]; ok {
				// untouched entry-state value: covered by the configuration well-formedness assumption
				switch a.ct.Sort {
				case "Ref":
					return cval{Or(Not(Eq(a.t, "nilref")), p), B}
				case "Val":
					return cval{Or(And(Not(Eq(a.t, "nilval")), sx("vnn", a.t)), p), B}
				}
			}
		}
		switch a.ct.Sort {
		case "Ref":
			return cval{Not(Eq(a.t, "nilref")), B}
		case "Val":
			return cval{And(Not(Eq(a.t, "nilval")), sx("vnn", a.t)), B}
		case "Slice":
			return cval{"true", B}
		}
		e.errorf("valid() of %s", a.ct.Sort)
		return cval{"true", B}
	case "contains":
		s, v := argv(0), argv(1)
		if s.ct.T == nil {
			e.errorf("contains: untyped slice")
			return cval{"true", B}
		}
		sl, ok := types.Unalias(s.ct.T).Underlying().(*types.Slice)
		if !ok {
			e.errorf("contains: not a slice")
			return cval{"true", B}
		}
		if v.ct.T != nil {
			v.t = vc.coerce(v.t, v.ct.T, sl.Elem())
		}
		return cval{vc.containsTerm(e.st, s.t, sl.Elem(), v.t), B}
	case "hasPrefix":
		return cval{sx("str.prefixof", argv(1).t, argv(0).t), B}
	case "hasSuffix":
		return cval{sx("str.suffixof", argv(1).t, argv(0).t), B}
	case "strContains":
		return cval{sx("str.contains", argv(0).t, argv(1).t), B}
	case "concat":
		var ts []Term
		for i := range x.Args {
			ts = append(ts, argv(i).t)
		}
		return cval{sx("str.++", ts...), S}
	case "ite":
		c := e.boolTerm(x.Args[0])
		a, b := argv(1), argv(2)
		a, b = e.adapt(a, b)
		return cval{Ite(c, a.t, b.t), a.ct}
	case "isErr":
		a, b := argv(0), argv(1)
		a, b = e.adapt(a, b)
		return cval{vc.isErrTerm(a.t, b.t), B}
	case "asErr":
		if len(x.Args) != 2 || x.Args[0].Op != "lit-str" {
			e.errorf(`asErr("T", err) expected`)
			return cval{"nilref", CT{Sort: "Ref"}}
		}
		t := e.lookupType(x.Args[0].Str)
		if t == nil {
			e.errorf("asErr: unknown type %s", x.Args[0].Str)
			return cval{"nilref", CT{Sort: "Ref"}}
		}
		return cval{vc.asErrTerm(t, argv(1).t), vc.ctOf(t)}
	case "typeis":
		if len(x.Args) != 2 || x.Args[1].Op != "lit-str" {
			e.errorf(`typeis(x, "T") expected`)
			return cval{"true", B}
		}
		t := e.lookupType(x.Args[1].Str)
		if t == nil {
			e.errorf("typeis: unknown type %s", x.Args[1].Str)
			return cval{"true", B}
		}
		a := argv(0)
		return cval{Eq(sx("typeOf", a.t), vc.tyID(t)), B}
	case "implements":
		if len(x.Args) != 2 || x.Args[1].Op != "lit-str" {
			e.errorf(`implements(x, "I") expected`)
			return cval{"true", B}
		}
		t := e.lookupType(x.Args[1].Str)
		if t == nil {
			e.errorf("implements: unknown type %s", x.Args[1].Str)
			return cval{"true", B}
		}
		a := argv(0)
		return cval{And(Not(Eq(a.t, "nilval")), vc.implementsPred(a.t, t)), B}
	case "as":
		// as(x, "I"): view interface value x as interface I (identity on Val)
		if len(x.Args) != 2 || x.Args[1].Op != "lit-str" {
			e.errorf(`as(x, "I") expected`)
			return cval{"nilval", CT{Sort: "Val"}}
		}
		t := e.lookupType(x.Args[1].Str)
		if t == nil {
			e.errorf("as: unknown type %s", x.Args[1].Str)
			return cval{"nilval", CT{Sort: "Val"}}
		}
		a := argv(0)
		if a.ct.Sort == "Val" && vc.sortOf(t) != "Val" {
			return cval{sx(vc.unboxFn(t), a.t), vc.ctOf(t)}
		}
		return cval{a.t, vc.ctOf(t)}
	case "fresh":
		a := argv(0)
		if e.old == nil {
			e.errorf("fresh() needs a pre-state")
			return cval{"true", B}
		}
		r := a.t
		if a.ct.Sort == "Slice" {
			r = vc.sptr(a.t)
		}
		return cval{sx(">=", sx("birth", sx("root", r)), e.old.clk), B}
	case "now":
		if len(x.Args) == 1 && x.Args[0].Op == "lit-int" {
			var k int
			fmt.Sscan(x.Args[0].Int, &k)
			if k >= 1 && k <= len(vc.nowTerms) {
				return cval{vc.nowTerms[k-1], CT{Sort: "Int"}}
			}
			// reading that does not exist on any path: unconstrained symbol
			return cval{vc.sc.DeclConst(fmt.Sprintf("now_missing_%d", k), "Int"), CT{Sort: "Int"}}
		}
	case "callres":
		if len(x.Args) == 2 && x.Args[0].Op == "lit-str" && x.Args[1].Op == "lit-int" {
			var k int
			fmt.Sscan(x.Args[1].Int, &k)
			syms := vc.callSyms[x.Args[0].Str]
			if k < len(syms) {
				return cval{syms[k], vc.callSymCT(x.Args[0].Str, k)}
			}
			e.errorf("callres: no call of %s recorded", x.Args[0].Str)
			return cval{"nilval", CT{Sort: "Val"}}
		}
	case "calledAny":
		// calledAny("key"): the path executed some call of key (any call site)
		if len(x.Args) == 1 && x.Args[0].Op == "lit-str" {
			var rs []Term
			for n := 1; ; n++ {
				r, ok := vc.callReach[fmt.Sprintf("%s#%d", x.Args[0].Str, n)]
				if !ok {
					break
				}
				rs = append(rs, r)
			}
			return cval{Or(rs...), B}
		}
	case "lastres", "lastarg":
		// lastres("key", i) / lastarg("key", i): i-th result / argument of the last call of key the
		// path executed (over all call sites, in program order)
		if len(x.Args) == 2 && x.Args[0].Op == "lit-str" && x.Args[1].Op == "lit-int" {
			var k int
			fmt.Sscan(x.Args[1].Int, &k)
			var out cval
			found := false
			for n := 1; ; n++ {
				key := fmt.Sprintf("%s#%d", x.Args[0].Str, n)
				r, ok := vc.callReach[key]
				if !ok {
					break
				}
				var v cval
				if x.Name == "lastres" {
					syms := vc.callSyms[key]
					if k >= len(syms) {
						break
					}
					v = cval{syms[k], vc.callSymCT(key, k)}
				} else {
					as := vc.callArgs[key]
					if k >= len(as) {
						break
					}
					v = as[k]
				}
				if !found {
					out, found = v, true
				} else {
					out = cval{Ite(r, v.t, out.t), v.ct}
				}
			}
			if found {
				return out
			}
			e.errorf("%s: no call of %s recorded", x.Name, x.Args[0].Str)
			return cval{"nilval", CT{Sort: "Val"}}
		}
	case "globalType":
		// globalType("pkg.Var", "T"): the static type of a package-level variable (decided at generation time)
		if len(x.Args) == 2 && x.Args[0].Op == "lit-str" && x.Args[1].Op == "lit-str" {
			name := x.Args[0].Str
			pkg := e.pkg
			if i := strings.Index(name, "."); i >= 0 {
				pkg = vc.P.pkgByShort(name[:i])
				name = name[i+1:]
			}
			if pkg != nil {
				if o := pkg.Scope().Lookup(name); o != nil {
					if types.TypeString(o.Type(), nil) == x.Args[1].Str {
						return cval{"true", B}
					}
					return cval{"false", B}
				}
			}
			e.errorf("globalType: unknown variable %s", x.Args[0].Str)
			return cval{"false", B}
		}
	case "detachedCtx":
		// detachedCtx(ctx): established only by context.WithoutCancel / context.Background (ext.go)
		vc.sc.DeclFun("detachedCtx", []string{"Val"}, "Bool")
		return cval{sx("detachedCtx", argv(0).t), B}
	case "called":
		// called("key"): the path executed the (first) call of key
		if len(x.Args) == 1 && x.Args[0].Op == "lit-str" {
			if r, ok := vc.callReach[x.Args[0].Str]; ok && r != "" {
				return cval{r, B}
			}
			return cval{"false", B}
		}
	case "callarg":
		// callarg("key", i [, "T"]): i-th argument of the first call of key in this function
		// (receiver excluded for interface methods); with "T" a boxed argument is viewed as T
		if len(x.Args) >= 2 && x.Args[0].Op == "lit-str" && x.Args[1].Op == "lit-int" {
			var k int
			fmt.Sscan(x.Args[1].Int, &k)
			as := vc.callArgs[x.Args[0].Str]
			if k >= len(as) {
				e.errorf("callarg: no call of %s recorded (or too few arguments)", x.Args[0].Str)
				return cval{"nilval", CT{Sort: "Val"}}
			}
			a := as[k]
			if len(x.Args) == 3 && x.Args[2].Op == "lit-str" {
				t := e.lookupType(x.Args[2].Str)
				if x.Args[2].Str == "dyn" {
					// the static type the call site boxes into the interface parameter
					if dts := vc.callArgDyn[x.Args[0].Str]; k < len(dts) && dts[k].t != "" {
						return dts[k]
					} else {
						e.errorf("callarg: argument %d of %s is not a boxed value of a static type", k, x.Args[0].Str)
						return a
					}
				}
				if t == nil {
					e.errorf("callarg: unknown type %s", x.Args[2].Str)
					return a
				}
				if a.ct.Sort == "Val" && vc.sortOf(t) != "Val" {
					return cval{sx(vc.unboxFn(t), a.t), vc.ctOf(t)}
				}
				return cval{a.t, vc.ctOf(t)}
			}
			return a
		}
	case "formValue":
		// formValue(m, key): url.Values(m).Get(key) in the current state
		mv := argv(0)
		if mv.ct.T != nil {
			if mt, ok := types.Unalias(mv.ct.T).Underlying().(*types.Map); ok {
				return cval{vc.valuesGet(e.st, mv.t, mt, argv(1).t), S}
			}
		}
		e.errorf("formValue: first argument must be a url.Values")
		return cval{StrLit(""), S}
	case "moderr":
		// moderr(err): err is non-nil and its dynamic type is declared in this module
		a := argv(0)
		return cval{Not(vc.notModuleErr(a.t)), B}
	case "tgtvalid":
		return cval{vc.tgtValid(e.st, argv(0).t), B}
	case "b64urlDecode":
		vc.sc.DeclFun("b64urlDecode", []string{"String"}, "String")
		return cval{sx("b64urlDecode", argv(0).t), S}
	case "splitPart":
		vc.sc.DeclFun("splitPart", []string{"String", "String", "Int"}, "String")
		return cval{sx("splitPart", argv(0).t, argv(1).t, argv(2).t), S}
	case "splitCount":
		vc.sc.DeclFun("splitCount", []string{"String", "String"}, "Int")
		return cval{sx("splitCount", argv(0).t, argv(1).t), I}
	case "iszero":
		a := argv(0)
		if a.ct.T == nil {
			e.errorf("iszero of untyped value")
			return cval{"true", B}
		}
		return cval{Eq(a.t, vc.zeroOf(a.ct.T)), B}
	case "tosec":
		// tosec(t): whole seconds of a time value
		return cval{sx("div", argv(0).t, "1000000000"), I}
	case "box":
		a := argv(0)
		if a.ct.T != nil {
			return cval{vc.box(a.t, a.ct.T), vc.ctOf(types.Universe.Lookup("any").Type())}
		}
	case "bstr":
		return cval{sx("bstr", argv(0).t), S}
	case "haskey":
		// haskey(m, k): k is a key of map m in the current state
		mv, k := argv(0), argv(1)
		if mv.ct.T != nil {
			if mt, ok := types.Unalias(mv.ct.T).Underlying().(*types.Map); ok {
				_, kin := mapKeys(mt)
				cur := vc.rawLoadSort(e.st, kin, "(Array "+vc.sortOf(mt.Key())+" Bool)", mv.t)
				return cval{And(Not(Eq(mv.t, "nilref")), sx("select", cur, k.t)), B}
			}
		}
		e.errorf("haskey: %s is not a map", x.Args[0])
		return cval{"false", B}
	case "callargelem":
		// callargelem("key", i, j): j-th element of the variadic argument i of the first call of key,
		// as it was when the call was made
		if len(x.Args) == 3 && x.Args[0].Op == "lit-str" && x.Args[1].Op == "lit-int" && x.Args[2].Op == "lit-int" {
			var i, j int
			fmt.Sscan(x.Args[1].Int, &i)
			fmt.Sscan(x.Args[2].Int, &j)
			if es, ok := vc.callArgElems[x.Args[0].Str][i]; ok && j < len(es) {
				return es[j]
			}
			e.errorf("callargelem: no variadic argument %d (element %d) recorded for %s", i, j, x.Args[0].Str)
			return cval{"nilval", CT{Sort: "Val"}}
		}
	case "b64urlEncode":
		vc.sc.DeclFun("b64urlEncode", []string{"String"}, "String")
		return cval{sx("b64urlEncode", argv(0).t), S}
	case "hasMethod":
		// hasMethod("T", "M"): static fact from go/types - the method set of T contains M
		if len(x.Args) == 2 && x.Args[0].Op == "lit-str" && x.Args[1].Op == "lit-str" {
			t := e.lookupType(x.Args[0].Str)
			if t == nil {
				e.errorf("hasMethod: unknown type %s", x.Args[0].Str)
				return cval{"false", B}
			}
			obj, _, _ := types.LookupFieldOrMethod(t, true, e.pkg, x.Args[1].Str)
			if _, ok := obj.(*types.Func); ok {
				return cval{"true", B}
			}
			return cval{"false", B}
		}
	case "addr":
		// addr(loc): the address of an addressable location (field, element, dereference)
		if len(x.Args) == 1 {
			if a, _, ok := e.addrOf(x.Args[0]); ok {
				return cval{a, CT{Sort: "Ref"}}
			}
			return cval{"nilref", CT{Sort: "Ref"}}
		}
	case "inInt64Range":
		// inInt64Range(x): the float x converts to an int64 without leaving its range
		v := argv(0)
		return cval{And(sx("<", v.t, "9223372036854775808.0"), sx(">=", v.t, "(- 9223372036854775808.0)")), B}
	case "truncFloat":
		// truncFloat(x): Go's float -> integer conversion (truncation toward zero)
		v := argv(0)
		return cval{Ite(sx(">=", v.t, "0.0"), sx("to_int", v.t), sx("-", sx("to_int", sx("-", v.t)))), I}
	case "mapkeys", "mapvals":
		// mapkeys(m) / mapvals(m): the whole key set / value table of map m (for "unchanged" clauses)
		mv := argv(0)
		if mv.ct.T != nil {
			if mt, ok := types.Unalias(mv.ct.T).Underlying().(*types.Map); ok {
				kv, kin := mapKeys(mt)
				ks, vs := vc.sortOf(mt.Key()), vc.sortOf(mt.Elem())
				if x.Name == "mapkeys" {
					return cval{vc.rawLoadSort(e.st, kin, "(Array "+ks+" Bool)", mv.t), CT{Sort: "(Array " + ks + " Bool)"}}
				}
				return cval{vc.rawLoadSort(e.st, kv, "(Array "+ks+" "+vs+")", mv.t), CT{Sort: "(Array " + ks + " " + vs + ")"}}
			}
		}
		e.errorf("%s: %s is not a map", x.Name, x.Args[0])
		return cval{"false", B}
	case "ranged":
		// ranged(k): the enclosing range-over-map loop has already produced key k
		k := argv(0)
		var keys []string
		for mk := range e.st.mem {
			if strings.HasPrefix(mk, "G:ranged:") {
				keys = append(keys, mk)
			}
		}
		if len(keys) != 1 {
			e.errorf("ranged: needs exactly one active range-over-map loop (found %d)", len(keys))
			return cval{"false", B}
		}
		return cval{sx("select", e.st.mem[keys[0]], k.t), B}
	case "jsonAny":
		vc.jsonDecls()
		return cval{sx("jsonAny", argv(0).t), vc.ctOf(types.Universe.Lookup("any").Type())}
	case "jsonStr":
		vc.jsonDecls()
		return cval{sx("jsonStr", argv(0).t), S}
	case "jsonEnc":
		vc.jsonDecls()
		return cval{sx("jsonEnc", argv(0).t), S}
	case "jsonMarshal":
		vc.jsonDecls()
		return cval{sx("jsonMarshal", argv(0).t), S}
	case "docHas":
		vc.jsonDecls()
		return cval{sx("docHas", argv(0).t, argv(1).t), B}
	case "docVal":
		vc.jsonDecls()
		return cval{sx("docVal", argv(0).t, argv(1).t), vc.ctOf(types.Universe.Lookup("any").Type())}
	case "jsonSpace":
		vc.jsonDecls()
		return cval{sx("jsonSpace", argv(0).t), B}
	case "decRest":
		// decRest(): what the last json.Decoder.Decode left unread
		if t, ok := e.st.mem["G:Dec_rest"]; ok {
			return cval{t, S}
		}
		return cval{StrLit(""), S}
	case "subslice":
		// subslice(x, y, lo, hi): x is y[lo:hi] (same storage, that window)
		xs, ys, lo, hi := argv(0), argv(1), argv(2), argv(3)
		return cval{And(Eq(vc.sptr(xs.t), vc.elemAddr(vc.sptr(ys.t), lo.t)), Eq(sx("s-len", xs.t), sx("-", hi.t, lo.t))), B}
	case "str":
		// str(x): string view of a named string type value
		a := argv(0)
		return cval{a.t, S}
	}
	if sf, ok := vc.C.Specs[x.Name]; ok {
		var args []cval
		for i := range x.Args {
			args = append(args, argv(i))
		}
		return e.applySpec(sf, args)
	}
	e.errorf("unknown function %s in contract", x.Name)
	return cval{"true", B}
}

func (vc *VC) callSymCT(key string, k int) CT {
	if cts, ok := vc.callSymTypes[key]; ok && k < len(cts) {
		return cts[k]
	}
	return CT{Sort: "Val"}
}

// containsTerm: exists i. 0 <= i < len(s) && s[i] == v
func (vc *VC) containsTerm(st *State, s Term, et types.Type, v Term) Term {
	vc.needElemAxioms()
	addr := sx("elem", vc.sptr(s), "?ci")
	elemv := vc.loadT(st, addr, et)
	return fmt.Sprintf("(exists ((?ci Int)) (! (and (<= 0 ?ci) (< ?ci (s-len %s)) (= %s %s)) :pattern (%s)))", s, elemv, v, addr)
}

func (vc *VC) isErrTerm(err, target Term) Term {
	vc.sc.DeclFun("isErr", []string{"Val", "Val"}, "Bool")
	vc.isErrTargets[target] = true
	return Or(And(Eq(err, target), Not(Eq(err, "nilval"))), sx("isErr", err, target))
}

func (vc *VC) asErrTerm(t types.Type, err Term) Term {
	name := "asErr_" + symKey(t)
	if !vc.sc.declSet[name] {
		vc.sc.DeclFun(name, []string{"Val"}, vc.sortOf(t))
		vc.sc.Axiom(Eq(sx(name, "nilval"), vc.zeroOf(t)))
		// errors.As looks at the error itself first: a value of dynamic type T is its own match
		if vc.sortOf(t) != "Val" {
			vc.sc.Axiom(fmt.Sprintf("(forall ((?ev Val)) (! (=> (and (not (= ?ev nilval)) (= (typeOf ?ev) %s)) (= (%s ?ev) (%s ?ev))) :pattern ((%s ?ev))))", vc.tyID(t), name, vc.unboxFn(t), name))
		}
	}
	return sx(name, err)
}

// provOfSelect: for a term (select |M_key@k| addr) of sort Ref/Val, the entry-trust predicate of that load.
func (vc *VC) provOfSelect(t Term, sort string) Term {
	if sort != "Ref" && sort != "Val" || !strings.HasPrefix(t, "(select |") || strings.Contains(t, "?") {
		return ""
	}
	rest := t[len("(select |"):]
	i := strings.Index(rest, "| ")
	if i < 0 {
		return ""
	}
	ver := rest[:i] // sanitized key @ version
	addr := strings.TrimSuffix(rest[i+2:], ")")
	j := strings.LastIndex(ver, "@")
	if j < 0 {
		return ""
	}
	for key, ms := range vc.memSorts {
		if sanitize(key) == ver[:j] && ms == "(Array Ref "+sort+")" {
			return vc.entryTrusted(key, sort, t, addr)
		}
	}
	return ""
}

package main

import (
	"os/exec"
	"golang.org/x/tools/go/ssa"
	"encoding/json"
	"flag"
	"fmt"
	"os"
	"path/filepath"
	"sort"
	"strings"
	"sync"
	"time"
)

// PropSpecFile: /verif/specs/props/<ID>.json — which functions and obligations decide a property.
type PropSpecFile struct {
	ID        string   `json:"id"`
	Functions []string `json:"functions"`        // functions whose contracts / bodies are checked
	Safety    []string `json:"safety_functions"` // functions swept with zero-annotation safety obligations
	// obligations (by kind) that count for this property; empty = post, pre, inv-*, frame, lemma
	Kinds            []string `json:"kinds"`
	MinContractObl   int      `json:"min_contract_obligations"`
	Undecided        []string `json:"undecided_clauses"`
	Trusted          []string `json:"trusted_base"`
	Bounded          []string `json:"bounded_standins"`
	Lemmas           []string `json:"lemmas"`
	SafetyKinds      []string `json:"safety_kinds"`
	IgnoreObligation []string `json:"not_claimed"` // obligation name prefixes generated but not claimed (with reason after " -- ")
	MaxInline        int      `json:"max_inline"`
	SafetySweep      bool     `json:"safety_sweep"`  // sweep every module function with safety obligations
	SweepInline      int      `json:"sweep_inline"`  // inline depth for swept functions
	SweepBudget      int      `json:"sweep_budget"`  // inlined-instruction budget for swept functions
	SweepQuickPrefix []string `json:"sweep_quick_prefixes"` // quick tier: only functions with these key prefixes (empty = all)
	IncludeClosures  bool     `json:"include_closures"` // also check the anonymous functions (closures, spawned goroutine bodies) of the listed functions
	OnlyNames        []string `json:"only_names"` // when set: only obligations whose name contains one of these (and canaries)
	SweepSkipLabels  []string `json:"sweep_skip_pre_labels"` // swept functions: call-site preconditions with these clause labels belong to other properties
}

type KnownFinding struct {
	Property   string `json:"property"`
	Obligation string `json:"obligation"`
	Status     string `json:"status"` // known | fixed
	What       string `json:"what"`
	Commit     string `json:"commit,omitempty"`
	Replay     string `json:"replay,omitempty"`
}

type funcResult struct {
	sweep  bool
	key    string
	vc     *VC
	obs    []*Oblig
	errors []string
	genS   float64
}

func verifDir() string {
	if d := os.Getenv("VERIF_DIR"); d != "" {
		return d
	}
	exe, err := os.Executable()
	if err == nil {
		d := filepath.Dir(filepath.Dir(exe))
		if _, err := os.Stat(filepath.Join(d, "MANIFEST.json")); err == nil {
			return d
		}
	}
	return "/verif"
}

// knownFailing: obligations recorded as known findings (any property). A failing obligation that is
// a recorded defect is reported, but not assumed afterwards (it would make the rest of the function
// unreachable); knownLoopInv holds "funcKey|ordinal:label" of invariants whose initiation is known to fail.
var knownFailing = map[string]bool{}
var knownLoopInv = map[string]bool{}

func initKnown(dir string) {
	for _, k := range loadKnown(dir) {
		if k.Status != "known" {
			continue
		}
		knownFailing[k.Obligation] = true
		if i := strings.Index(k.Obligation, "/inv-init"); i >= 0 {
			fn := k.Obligation[:i]
			rest := k.Obligation[i+len("/inv-init"):]
			if strings.HasPrefix(rest, "[") {
				if j := strings.Index(rest, "]"); j > 0 {
					fn = rest[1:j]
					rest = rest[j+1:]
				}
			}
			knownLoopInv[fn+"|"+strings.TrimPrefix(rest, ":")] = true
		}
	}
}

func loadKnown(dir string) []KnownFinding {
	var k []KnownFinding
	b, err := os.ReadFile(filepath.Join(dir, "known_findings.json"))
	if err != nil {
		return nil
	}
	var wrap struct {
		Findings []KnownFinding `json:"findings"`
	}
	if json.Unmarshal(b, &wrap) == nil {
		k = wrap.Findings
	}
	return k
}

func cmdCheck(args []string) int {
	var ids []string
	for len(args) > 0 && !strings.HasPrefix(args[0], "-") {
		ids = append(ids, args[0])
		args = args[1:]
	}
	fs := flag.NewFlagSet("check", flag.ExitOnError)
	tier := fs.String("tier", "quick", "quick|thorough")
	verbose := fs.Bool("v", false, "list every obligation")
	fs.Parse(args)
	if t := os.Getenv("VERIF_TIER"); t != "" && *tier == "" {
		*tier = t
	}
	if len(ids) == 0 {
		fmt.Fprintln(os.Stderr, "usage: govc check <PROP>... [--tier quick|thorough]")
		return 2
	}
	dir := verifDir()
	initKnown(dir)
	t0 := time.Now()
	P, err := LoadProgram()
	if err != nil {
		fmt.Fprintf(os.Stderr, "cannot load %s: %v\n", repoDir(), err)
		for _, id := range ids {
			writeReplay(dir, id, "load", map[string]any{"property": id, "obligation": "load/typecheck", "output": err.Error()})
			fmt.Printf("VIOLATION property=%s replay=%s no-failing-input-found\n", id, filepath.Join(dir, "replay", id, "load.json"))
		}
		return 1
	}
	P.analyzeGlobals()
	C := LoadContracts(P, filepath.Join(dir, "specs"))
	loadS := time.Since(t0).Seconds()
	rc := 0
	for _, id := range ids {
		if r := checkProperty(dir, P, C, id, *tier, *verbose, loadS); r > rc {
			rc = r
		}
	}
	return rc
}

func matchAny(name string, pats []string) bool {
	for _, p := range pats {
		p = strings.TrimSpace(strings.SplitN(p, " -- ", 2)[0])
		if p != "" && strings.HasPrefix(name, p) {
			return true
		}
	}
	return false
}

func checkProperty(dir string, P *Program, C *Contracts, id, tier string, verbose bool, loadS float64) int {
	t0 := time.Now()
	var spec PropSpecFile
	b, err := os.ReadFile(filepath.Join(dir, "specs", "props", id+".json"))
	if err != nil {
		fmt.Fprintf(os.Stderr, "no property spec for %s: %v\n", id, err)
		return 2
	}
	if err := json.Unmarshal(b, &spec); err != nil {
		fmt.Fprintf(os.Stderr, "bad property spec %s: %v\n", id, err)
		return 2
	}
	timeout := 6
	if tier == "thorough" {
		timeout = 30
	}
	outDir := filepath.Join(dir, "out", id)
	if o := os.Getenv("VERIF_OUT"); o != "" {
		outDir = filepath.Join(o, id)
	}
	os.RemoveAll(outDir)
	d := NewDischarger(outDir, timeout, 16)
	d.Thorough = tier == "thorough"

	type job struct {
		key    string
		safety bool
		sweep  bool
	}
	var jobs []job
	seen := map[string]bool{}
	safetySet := map[string]bool{}
	for _, k := range spec.Safety {
		safetySet[k] = true
	}
	for _, k := range spec.Functions {
		if !seen[k] {
			seen[k] = true
			jobs = append(jobs, job{k, safetySet[k] || spec.SafetySweep, false})
		}
	}
	for _, k := range spec.Safety {
		if !seen[k] {
			seen[k] = true
			jobs = append(jobs, job{k, true, false})
		}
	}
	if spec.IncludeClosures {
		var addAnon func(fn *ssa.Function)
		addAnon = func(fn *ssa.Function) {
			for _, an := range fn.AnonFuncs {
				k := funcKey(an)
				if P.Funcs[k] != nil && !seen[k] {
					seen[k] = true
					jobs = append(jobs, job{k, false, false})
				}
				addAnon(an)
			}
		}
		for _, k := range spec.Functions {
			if fn := P.Funcs[k]; fn != nil {
				addAnon(fn)
			}
		}
	}
	if spec.SafetySweep {
		for _, k := range P.sortedFuncKeys() {
			fn := P.Funcs[k]
			if seen[k] || !isModuleFunc(fn) || len(fn.Blocks) == 0 || strings.Contains(k, "mock.") || strings.HasSuffix(k, ".init") || isGeneratedFunc(P, fn) {
				continue
			}
			if tier == "quick" && len(spec.SweepQuickPrefix) > 0 && !matchAny(k, spec.SweepQuickPrefix) {
				continue
			}
			seen[k] = true
			jobs = append(jobs, job{k, true, true})
		}
	}
	var violations []string // obligation names
	bindingErrs := append([]string{}, C.Errors...)
	results := make([]*funcResult, len(jobs))
	var wg sync.WaitGroup
	gensem := make(chan struct{}, 8)
	for i, j := range jobs {
		fn := P.Funcs[j.key]
		if fn == nil || len(fn.Blocks) == 0 {
			bindingErrs = append(bindingErrs, fmt.Sprintf("function %s named by property %s not found in %s", j.key, id, repoDir()))
			continue
		}
		wg.Add(1)
		go func(i int, j job) {
			defer wg.Done()
			gensem <- struct{}{}
			g0 := time.Now()
			opts := VCOpts{Safety: j.safety, MaxInline: spec.MaxInline, Canary: true, Cover: !j.sweep}
			if j.sweep || spec.SafetySweep {
				opts.MaxInline = spec.SweepInline
				opts.InlineBudget = spec.SweepBudget
				if opts.MaxInline == 0 {
					opts.MaxInline = 2
				}
				if opts.InlineBudget == 0 {
					opts.InlineBudget = 300
				}
			}
			vc := NewVC(P, C, fn, opts)
			vc.Generate()
			<-gensem
			fr := &funcResult{key: j.key, vc: vc, genS: time.Since(g0).Seconds(), sweep: j.sweep}
			d.Discharge(vc)
			fr.obs = vc.sc.Obligs()
			fr.errors = vc.Errors
			results[i] = fr
		}(i, j)
	}
	wg.Wait()

	// second chance for obligations left undecided under load: re-run them with a longer
	// timeout and little parallelism (an undecided obligation is never reported as proved)
	{
		d2 := NewDischarger(outDir, timeout*5, 4)
		d2.Thorough = false
		var wg2 sync.WaitGroup
		for _, r := range results {
			if r == nil {
				continue
			}
			for _, ob := range r.obs {
				if ob.Result == "timeout" || ob.Result == "unknown" {
					wg2.Add(1)
					go func(r *funcResult, ob *Oblig) {
						defer wg2.Done()
						d2.standalone(r.vc, ob, filepath.Join(outDir, sanitize(r.key)))
					}(r, ob)
				}
			}
		}
		wg2.Wait()
		for k, v := range d2.BySolver {
			d.BySolver[k] += v
		}
		for k, v := range d2.SolverSec {
			d.SolverSec[k] += v
		}
	}

	known := loadKnown(dir)
	knownByOb := map[string]KnownFinding{}
	for _, k := range known {
		if k.Property == id && k.Status == "known" {
			knownByOb[k.Obligation] = k
		}
	}
	kindOK := map[string]bool{}
	for _, k := range spec.Kinds {
		kindOK[k] = true
	}
	contractKinds := map[string]bool{"post": true, "pre": true, "inv-init": true, "inv-preserve": true, "frame": true, "lemma": true}

	var all []*Oblig
	nContract := 0
	nDischarged := 0
	var failed []*Oblig
	var knownHit []string
	var notClaimed []string
	var fuc, inlined, abstracted, assumed []string
	inlSet, absSet, assSet := map[string]bool{}, map[string]bool{}, map[string]bool{}
	for _, r := range results {
		if r == nil {
			continue
		}
		fuc = append(fuc, r.key)
		for k := range r.vc.Inlined {
			inlSet[k] = true
		}
		for k := range r.vc.Abstracted {
			absSet[k] = true
		}
		for k := range r.vc.Assumed {
			assSet[k] = true
		}
		for _, e := range r.errors {
			if strings.HasPrefix(e, "contract:") || strings.Contains(e, "loop spec") {
				bindingErrs = append(bindingErrs, r.key+": "+e)
			} else {
				absSet["unsupported: "+e] = true
			}
		}
		for _, ob := range r.obs {
			if len(kindOK) > 0 && !kindOK[ob.Kind] && ob.Kind != "canary" {
				continue
			}
			if r.sweep {
				// swept (not listed) functions contribute run-time safety and the response protocol;
				// functional clauses of their contracts are decided by the properties that list them
				switch ob.Kind {
				case "post", "frame", "lemma", "inv-init":
					continue
				case "inv-preserve":
					if !strings.Contains(ob.Name, ":auto") {
						continue
					}
				case "pre":
					skip := false
					for _, l := range spec.SweepSkipLabels {
						if strings.Contains(ob.Name, "."+l) {
							skip = true
						}
					}
					if skip {
						continue
					}
				}
			}
			if len(spec.OnlyNames) > 0 && ob.Kind != "canary" {
				keep := false
				for _, n := range spec.OnlyNames {
					if strings.Contains(ob.Name, n) {
						keep = true
					}
				}
				if !keep {
					continue
				}
			}
			if matchAny(ob.Name, spec.IgnoreObligation) {
				notClaimed = append(notClaimed, ob.Name)
				continue
			}
			all = append(all, ob)
			if contractKinds[ob.Kind] {
				nContract++
			}
			ok := ob.Result == "unsat" && !ob.Cover || ob.Cover && ob.Result == "sat"
			if ok {
				nDischarged++
				continue
			}
			if k, isKnown := knownByOb[ob.Name]; isKnown {
				knownHit = append(knownHit, fmt.Sprintf("KNOWN-FINDING: property=%s %s %s", id, ob.Name, k.What))
				ob.Known = true
				continue
			}
			failed = append(failed, ob)
		}
	}
	inlined, abstracted, assumed = sortedKeys(inlSet), sortedKeys(absSet), sortedKeys(assSet)
	sort.Strings(fuc)

	for _, l := range knownHit {
		fmt.Println(l)
	}
	rc := 0
	emitViolation := func(obName string, payload map[string]any, hasInput bool) {
		file := sanitize(obName)
		if len(file) > 150 {
			file = file[:150]
		}
		path := writeReplay(dir, id, file, payload)
		suffix := ""
		if !hasInput {
			suffix = " no-failing-input-found"
		}
		fmt.Printf("VIOLATION property=%s replay=%s obligation=%s%s\n", id, path, obName, suffix)
		violations = append(violations, obName)
		rc = 1
	}
	for _, e := range bindingErrs {
		emitViolation(id+"/contract-binding", map[string]any{"property": id, "obligation": "contract-binding", "output": e}, false)
		fmt.Fprintln(os.Stderr, "binding error:", e)
	}
	for _, ob := range failed {
		payload := map[string]any{
			"property": id, "obligation": ob.Name, "kind": ob.Kind, "function": ob.Func, "in_function": ob.InFunc,
			"position": ob.Pos, "result": ob.Result, "solver": ob.Solver, "smt_file": ob.File, "solver_output": trimModel(ob.Model),
			"clause": ob.Detail,
		}
		replayed := false
		if ob.Result == "sat" && ob.Model != "" {
			if rp := tryReplay(dir, P, ob, payload); rp {
				replayed = true
			}
		}
		emitViolation(ob.Name, payload, replayed)
	}
	// vacuity floor
	if nContract < spec.MinContractObl {
		emitViolation(id+"/vacuity:contract-obligation-count", map[string]any{"property": id, "obligation": "vacuity", "output": fmt.Sprintf("only %d contract obligations generated, floor is %d", nContract, spec.MinContractObl)}, false)
	}
	if len(all) == 0 {
		emitViolation(id+"/vacuity:no-obligations", map[string]any{"property": id, "obligation": "vacuity", "output": "no obligations generated"}, false)
	}

	// evidence
	var samples []map[string]any
	for i, ob := range all {
		if i%maxInt(1, len(all)/8) == 0 && len(samples) < 10 {
			samples = append(samples, map[string]any{"obligation": ob.Name, "kind": ob.Kind, "result": ob.Result, "solver": ob.Solver, "seconds": round3(ob.Seconds), "smt_bytes": ob.SMTBytes, "position": ob.Pos})
		}
	}
	var failedNames []string
	for _, ob := range failed {
		failedNames = append(failedNames, ob.Name+" ["+ob.Result+"]")
	}
	solverTotal := 0.0
	for _, s := range d.SolverSec {
		solverTotal += s
	}
	trusted := append([]string{
		"go/packages + go/types + go/ssa (x/tools v0.50.0): SSA is faithful to the compiled code",
		"govc: the VC generator and its SMT encoding (guarded by canaries, must-fail corpus, 3-solver race)",
		"SMT solvers z3 4.8.12, z3 5.1.0, cvc5 1.0.3",
		"machine integers treated as mathematical integers",
		"sequential semantics per call: no concurrent mutation of the objects a function reads",
	}, spec.Trusted...)
	ev := map[string]any{
		"property_id": id,
		"tier":        tier,
		"seed":        seedFromEnv(),
		"level":       "proof",
		"wall_s":      round3(time.Since(t0).Seconds() + loadS),
		"violations":  len(violations),
		"coverage": map[string]any{
			"obligations":              len(all) - len(knownHit),
			"discharged":               nDischarged,
			"contract_obligations":     nContract,
			"checker_cmd":              fmt.Sprintf("bin/govc check %s --tier %s", id, tier),
			"trusted_base":             trusted,
			"functions_under_contract": fuc,
			"by_backend":               d.BySolver,
			"solver_time_s":            round3(solverTotal),
			"solver_time_by_backend_s": roundMap(d.SolverSec),
			"samples":                  samples,
			"inlined":                  inlined,
			"abstracted_instructions":  abstracted,
			"assumed_specs":            assumed,
			"undecided_clauses":        spec.Undecided,
			"bounded_standins":         spec.Bounded,
			"known_findings":           knownHit,
			"failed_obligations":       failedNames,
			"not_claimed":              notClaimed,
			"vacuity": map[string]any{"contract_obligation_floor": spec.MinContractObl, "contract_obligations": nContract,
				"canaries": "every function's return must be reachable under its precondition and all assumed specs (sat)"},
			"extraction_drops": []string{"OpenTelemetry span.End / cancel / Unlock / Body.Close deferred calls are no-ops", "source positions (obligations are named by function, kind, label and expression)", "integer width", "goroutine bodies are not joined", "recover blocks are ignored"},
		},
		"assumptions": append(append([]string{}, assumed...), spec.Undecided...),
	}
	if tier == "thorough" {
		// bounded validation of assumed specs by execution (evidence only, never counted as proof)
		ev["coverage"].(map[string]any)["assumed_spec_validation"] = runSpecValidation(dir)
	}
	evDir := filepath.Join(dir, "evidence")
	if os.Getenv("VERIF_NOEVIDENCE") != "" {
		evDir = filepath.Join(dir, "out", "selftest-evidence")
	}
	os.MkdirAll(evDir, 0o755)
	eb, _ := json.MarshalIndent(ev, "", " ")
	os.WriteFile(filepath.Join(evDir, id+".json"), eb, 0o644)

	fmt.Printf("%s: %d obligations, %d discharged, %d known findings, %d violations, %.1fs (functions: %d)\n", id, len(all), nDischarged, len(knownHit), len(violations), time.Since(t0).Seconds(), len(fuc))
	if verbose {
		for _, ob := range all {
			fmt.Printf("  %-8s %-24s %6.2fs %s %s\n", ob.Result, ob.Solver, ob.Seconds, ob.Name, ob.Pos)
		}
	}
	return rc
}

func maxInt(a, b int) int {
	if a > b {
		return a
	}
	return b
}

func round3(f float64) float64 { return float64(int(f*1000+0.5)) / 1000 }

func roundMap(m map[string]float64) map[string]float64 {
	o := map[string]float64{}
	for k, v := range m {
		o[k] = round3(v)
	}
	return o
}

func seedFromEnv() int {
	var n int
	fmt.Sscan(os.Getenv("VERIF_SEED"), &n)
	return n
}

func trimModel(s string) string {
	if len(s) > 20000 {
		return s[:20000] + "\n...[truncated]"
	}
	return s
}

func writeReplay(dir, id, name string, payload map[string]any) string {
	p := filepath.Join(dir, "replay", id)
	if os.Getenv("VERIF_NOEVIDENCE") != "" {
		p = filepath.Join(dir, "out", "selftest-replay", id)
	}
	os.MkdirAll(p, 0o755)
	f := filepath.Join(p, name+".json")
	b, _ := json.MarshalIndent(payload, "", " ")
	os.WriteFile(f, b, 0o644)
	return f
}

// tryReplay attempts to turn a solver model into a failing run of the real code (see replay.go).
func tryReplay(dir string, P *Program, ob *Oblig, payload map[string]any) bool {
	return replayModel(dir, P, ob, payload)
}

// runSpecValidation executes /verif/specs/validate (stdlib-only tests of the assumed models of
// encoding/json, bytes.Buffer, strings.Split, base64, float truncation, time.Round) with the
// pre-installed go1.26.8. Bounded, labelled as such; its outcome does not change the verdict.
func runSpecValidation(dir string) map[string]any {
	cmd := exec.Command("go1.26.8", "test", "-count=1", "-v", ".")
	cmd.Dir = filepath.Join(dir, "specs", "validate")
	cmd.Env = append(os.Environ(), "GOTOOLCHAIN=local", "GOFLAGS=-mod=mod", "GOPROXY=off", "GOWORK=off", "VERIF_TIER=thorough")
	out, err := cmd.CombinedOutput()
	res := map[string]any{"label": "bounded", "what": "assumed models of encoding/json map merge and buffer rest, generic decoding types, strings.Split, base64 inverse, float truncation, time.Round executed against the real standard library on generated inputs",
		"passed": err == nil}
	for _, l := range strings.Split(string(out), "\n") {
		if strings.HasPrefix(l, "SPECVALIDATE") {
			res["summary"] = l
		}
	}
	if err != nil {
		res["output"] = trimModel(string(out))
		fmt.Fprintln(os.Stderr, "assumed-spec validation FAILED (a model of the trusted base misdescribes the library):\n"+string(out))
	}
	return res
}

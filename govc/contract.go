package main

import (
	"fmt"
	"go/types"
	"os"
	"path/filepath"
	"sort"
	"strconv"
	"strings"
	"unicode"
)

// ---------- contract AST ----------

type Clause struct {
	UsesCallres bool
	Label   string
	Expr    *Expr
	Src     string
	Defines bool // definitional postcondition: assumed at call sites, not checked on the body
	NoCover bool // antecedent legitimately unreachable on the current tree (label suffix '!')
}

type FuncContract struct {
	Key       string
	Requires  []Clause
	Ensures   []Clause
	Modifies  []*Expr // nil = unspecified; empty non-nil = nothing
	ModFresh  bool
	Pure      bool
	Effectful bool
	Trusted   bool // contract is assumed, body not checked
	NoInline  bool
	Unframed  bool // listed modifies plus the default effect on arguments; no frame obligations on the body
	Origin    string // file
	IsExtern  bool
	IsIface   bool
	Params    []string // optional explicit parameter names (externs / iface methods)
}

type LoopSpec struct {
	Key        string // function key
	Ordinal    int
	Invariants []Clause
	// BackAsserts: checked at every back edge (end of an iteration that continues), never assumed:
	// "an iteration only continues if ..." - for loops that leave through a return in the body
	BackAsserts []Clause
}

type SpecFunc struct {
	Pkg    string // short name of the package whose contract file declares it ("" for /verif/specs)
	Name   string
	Params []SpecParam
	Ret    string // type name
	Body   *Expr  // nil = uninterpreted
}

type SpecParam struct {
	Name string
	Type string
}

type GhostDecl struct {
	Name  string
	IsMap bool
	Key   string // type name of key (maps)
	Type  string // value type name
}

type Lemma struct {
	Label string
	Expr  *Expr
	Src   string
	Axiom bool
}

type PropSpec struct{}

type Contracts struct {
	Funcs   map[string]*FuncContract
	Externs map[string]*FuncContract // by extKey (full import path)
	Ifaces  map[string]*FuncContract
	Loops   map[string]*LoopSpec // key#ordinal
	Specs   map[string]*SpecFunc
	Ghosts  map[string]*GhostDecl
	Lemmas  []*Lemma
	Immutable map[string]string
	StorageIfaces  map[string]bool
	StorageLookups map[string]bool
	Errors  []string
	curPkg  string
}

func NewContracts() *Contracts {
	return &Contracts{Funcs: map[string]*FuncContract{}, Externs: map[string]*FuncContract{}, Ifaces: map[string]*FuncContract{},
		Loops: map[string]*LoopSpec{}, Specs: map[string]*SpecFunc{}, Ghosts: map[string]*GhostDecl{}}
}

// ---------- expression AST ----------

type Expr struct {
	Op   string // "lit-int","lit-str","lit-bool","nil","id","field","index","slice","call","mcall","unary","binary","forall","exists","old"
	Name string
	Str  string
	Int  string
	Bool bool
	Args []*Expr
	X    *Expr
	Vars []SpecParam
	Pos  int
}

func (e *Expr) String() string {
	if e == nil {
		return "<nil>"
	}
	switch e.Op {
	case "lit-int":
		return e.Int
	case "lit-str":
		return strconv.Quote(e.Str)
	case "lit-bool":
		return fmt.Sprint(e.Bool)
	case "nil":
		return "nil"
	case "id":
		return e.Name
	case "field":
		return e.X.String() + "." + e.Name
	case "index":
		return e.X.String() + "[" + e.Args[0].String() + "]"
	case "call":
		var as []string
		for _, a := range e.Args {
			as = append(as, a.String())
		}
		return e.Name + "(" + strings.Join(as, ", ") + ")"
	case "mcall":
		var as []string
		for _, a := range e.Args {
			as = append(as, a.String())
		}
		return e.X.String() + "." + e.Name + "(" + strings.Join(as, ", ") + ")"
	case "unary":
		return e.Name + e.X.String()
	case "binary":
		return "(" + e.Args[0].String() + " " + e.Name + " " + e.Args[1].String() + ")"
	case "forall", "exists":
		var vs []string
		for _, v := range e.Vars {
			vs = append(vs, v.Name+" "+v.Type)
		}
		return e.Op + " " + strings.Join(vs, ", ") + " :: " + e.X.String()
	case "old":
		return "old(" + e.X.String() + ")"
	}
	return "?"
}

// ---------- lexer ----------

type tok struct {
	kind string // id int str op eof
	text string
	pos  int
}

func lex(s string) ([]tok, error) {
	var ts []tok
	i := 0
	for i < len(s) {
		c := s[i]
		switch {
		case c == ' ' || c == '\t' || c == '\n' || c == '\r':
			i++
		case unicode.IsLetter(rune(c)) || c == '_':
			j := i
			for j < len(s) && (unicode.IsLetter(rune(s[j])) || unicode.IsDigit(rune(s[j])) || s[j] == '_') {
				j++
			}
			ts = append(ts, tok{"id", s[i:j], i})
			i = j
		case c >= '0' && c <= '9':
			j := i
			for j < len(s) && (s[j] >= '0' && s[j] <= '9' || s[j] == '_') {
				j++
			}
			ts = append(ts, tok{"int", strings.ReplaceAll(s[i:j], "_", ""), i})
			i = j
		case c == '"':
			j := i + 1
			for j < len(s) && s[j] != '"' {
				if s[j] == '\\' {
					j++
				}
				j++
			}
			if j >= len(s) {
				return nil, fmt.Errorf("unterminated string at %d", i)
			}
			u, err := strconv.Unquote(s[i : j+1])
			if err != nil {
				return nil, fmt.Errorf("bad string %s", s[i:j+1])
			}
			ts = append(ts, tok{"str", u, i})
			i = j + 1
		default:
			ops := []string{"<==>", "==>", "::", "==", "!=", "<=", ">=", "&&", "||", "<", ">", "+", "-", "*", "/", "%", "!", "(", ")", "[", "]", ",", ".", ":", "#", "=", "?", "{", "}"}
			matched := false
			for _, op := range ops {
				if strings.HasPrefix(s[i:], op) {
					ts = append(ts, tok{"op", op, i})
					i += len(op)
					matched = true
					break
				}
			}
			if !matched {
				return nil, fmt.Errorf("unexpected character %q at %d", c, i)
			}
		}
	}
	ts = append(ts, tok{"eof", "", len(s)})
	return ts, nil
}

// ---------- parser ----------

type parser struct {
	ts  []tok
	i   int
	err error
}

func (p *parser) peek() tok { return p.ts[p.i] }
func (p *parser) next() tok {
	t := p.ts[p.i]
	if p.i < len(p.ts)-1 {
		p.i++
	}
	return t
}
func (p *parser) isOp(s string) bool { t := p.peek(); return t.kind == "op" && t.text == s }
func (p *parser) isID(s string) bool { t := p.peek(); return t.kind == "id" && t.text == s }
func (p *parser) expectOp(s string) {
	if !p.isOp(s) {
		p.fail("expected %q, found %q", s, p.peek().text)
		return
	}
	p.next()
}
func (p *parser) fail(f string, a ...any) {
	if p.err == nil {
		p.err = fmt.Errorf(f, a...)
	}
}

func parseExpr(s string) (*Expr, error) {
	ts, err := lex(s)
	if err != nil {
		return nil, err
	}
	p := &parser{ts: ts}
	e := p.expr()
	if p.err == nil && p.peek().kind != "eof" {
		p.fail("unexpected %q", p.peek().text)
	}
	return e, p.err
}

func (p *parser) expr() *Expr { return p.iff() }

func (p *parser) iff() *Expr {
	l := p.imp()
	for p.isOp("<==>") {
		p.next()
		r := p.imp()
		l = &Expr{Op: "binary", Name: "<==>", Args: []*Expr{l, r}}
	}
	return l
}

func (p *parser) imp() *Expr {
	l := p.or()
	if p.isOp("==>") {
		p.next()
		r := p.imp()
		return &Expr{Op: "binary", Name: "==>", Args: []*Expr{l, r}}
	}
	return l
}

func (p *parser) or() *Expr {
	l := p.and()
	for p.isOp("||") {
		p.next()
		r := p.and()
		l = &Expr{Op: "binary", Name: "||", Args: []*Expr{l, r}}
	}
	return l
}

func (p *parser) and() *Expr {
	l := p.cmp()
	for p.isOp("&&") {
		p.next()
		r := p.cmp()
		l = &Expr{Op: "binary", Name: "&&", Args: []*Expr{l, r}}
	}
	return l
}

func (p *parser) cmp() *Expr {
	l := p.add()
	for _, op := range []string{"==", "!=", "<=", ">=", "<", ">"} {
		if p.isOp(op) {
			p.next()
			r := p.add()
			return &Expr{Op: "binary", Name: op, Args: []*Expr{l, r}}
		}
	}
	return l
}

func (p *parser) add() *Expr {
	l := p.mul()
	for p.isOp("+") || p.isOp("-") {
		op := p.next().text
		r := p.mul()
		l = &Expr{Op: "binary", Name: op, Args: []*Expr{l, r}}
	}
	return l
}

func (p *parser) mul() *Expr {
	l := p.unary()
	for p.isOp("*") || p.isOp("/") || p.isOp("%") {
		op := p.next().text
		r := p.unary()
		l = &Expr{Op: "binary", Name: op, Args: []*Expr{l, r}}
	}
	return l
}

func (p *parser) unary() *Expr {
	if p.isOp("!") {
		p.next()
		return &Expr{Op: "unary", Name: "!", X: p.unary()}
	}
	if p.isOp("-") {
		p.next()
		return &Expr{Op: "unary", Name: "-", X: p.unary()}
	}
	if p.isOp("*") {
		p.next()
		return &Expr{Op: "unary", Name: "*", X: p.unary()}
	}
	return p.postfix()
}

func (p *parser) args() []*Expr {
	var as []*Expr
	p.expectOp("(")
	for !p.isOp(")") && p.err == nil {
		as = append(as, p.expr())
		if p.isOp(",") {
			p.next()
		} else {
			break
		}
	}
	p.expectOp(")")
	return as
}

func (p *parser) postfix() *Expr {
	e := p.primary()
	for p.err == nil {
		switch {
		case p.isOp("."):
			p.next()
			t := p.next()
			if t.kind != "id" {
				p.fail("expected identifier after '.'")
				return e
			}
			if p.isOp("(") {
				as := p.args()
				e = &Expr{Op: "mcall", X: e, Name: t.text, Args: as}
			} else {
				e = &Expr{Op: "field", X: e, Name: t.text}
			}
		case p.isOp("["):
			p.next()
			i := p.expr()
			p.expectOp("]")
			e = &Expr{Op: "index", X: e, Args: []*Expr{i}}
		default:
			return e
		}
	}
	return e
}

func (p *parser) primary() *Expr {
	t := p.next()
	switch t.kind {
	case "int":
		return &Expr{Op: "lit-int", Int: t.text}
	case "str":
		return &Expr{Op: "lit-str", Str: t.text}
	case "id":
		switch t.text {
		case "true", "false":
			return &Expr{Op: "lit-bool", Bool: t.text == "true"}
		case "nil":
			return &Expr{Op: "nil"}
		case "forall", "exists":
			var vars []SpecParam
			for p.err == nil {
				n := p.next()
				prefix := ""
				for p.isOp("*") || p.isOp("[") {
					if p.isOp("*") {
						p.next()
						prefix += "*"
					} else {
						p.next()
						p.expectOp("]")
						prefix += "[]"
					}
				}
				ty := p.next()
				if n.kind != "id" || ty.kind != "id" {
					p.fail("bad quantifier binder")
					break
				}
				tyName := prefix + ty.text
				if p.isOp(".") {
					p.next()
					q := p.next()
					tyName += "." + q.text
				}
				vars = append(vars, SpecParam{n.text, tyName})
				if p.isOp(",") {
					p.next()
					continue
				}
				break
			}
			p.expectOp("::")
			body := p.expr()
			return &Expr{Op: t.text, Vars: vars, X: body}
		case "old":
			if p.isOp("(") {
				p.next()
				x := p.expr()
				p.expectOp(")")
				return &Expr{Op: "old", X: x}
			}
		}
		if p.isOp("(") {
			as := p.args()
			return &Expr{Op: "call", Name: t.text, Args: as}
		}
		return &Expr{Op: "id", Name: t.text}
	case "op":
		if t.text == "(" {
			e := p.expr()
			p.expectOp(")")
			return e
		}
	}
	p.fail("unexpected %q", t.text)
	return &Expr{Op: "lit-bool", Bool: true}
}

// ---------- file parsing ----------

var declKeywords = map[string]bool{"storage-interfaces": true, "storage-lookups": true, "immutable": true, "func": true, "extern": true, "interface": true, "loop": true, "spec": true, "ghost": true, "axiom": true, "lemma": true}
var clauseKeywords = map[string]bool{"requires": true, "ensures": true, "defines": true, "modifies": true, "pure": true, "effectful": true, "trusted": true, "invariant": true, "continues-only-if": true, "noinline": true, "params": true, "unframed": true}

// ParseContractText parses the //@ lines of one file.
func (C *Contracts) ParseContractText(origin, text string) {
	C.curPkg = ""
	if i := strings.Index(origin, "/zz_verif_contracts.go"); i >= 0 {
		C.curPkg = origin[:i]
	}
	// collect logical lines
	type line struct {
		text string
		no   int
	}
	var lines []line
	for i, raw := range strings.Split(text, "\n") {
		s := strings.TrimSpace(raw)
		if !strings.HasPrefix(s, "//@") {
			continue
		}
		s = strings.TrimSpace(strings.TrimPrefix(s, "//@"))
		if s == "" || strings.HasPrefix(s, "--") {
			continue
		}
		lines = append(lines, line{s, i + 1})
	}
	// group: a keyword line starts a new element, others continue the previous
	type elem struct {
		kw   string
		rest string
		no   int
	}
	var elems []elem
	for _, l := range lines {
		first := l.text
		if i := strings.IndexAny(first, " \t"); i >= 0 {
			first = first[:i]
		}
		if declKeywords[first] || clauseKeywords[first] {
			elems = append(elems, elem{first, strings.TrimSpace(strings.TrimPrefix(l.text, first)), l.no})
		} else if len(elems) > 0 {
			elems[len(elems)-1].rest += " " + l.text
		} else {
			C.Errors = append(C.Errors, fmt.Sprintf("%s:%d: text outside declaration", origin, l.no))
		}
	}
	var curF *FuncContract
	var curL *LoopSpec
	errf := func(no int, f string, a ...any) {
		C.Errors = append(C.Errors, fmt.Sprintf("%s:%d: %s", origin, no, fmt.Sprintf(f, a...)))
	}
	splitLabel := func(s string) (string, string) {
		// label: expr   (label is an identifier with dashes)
		for i := 0; i < len(s); i++ {
			c := s[i]
			if c == ':' {
				if i+1 < len(s) && s[i+1] == ':' {
					return "", s
				}
				lab := strings.TrimSpace(s[:i])
				if lab != "" && !strings.ContainsAny(lab, " ()[]\"=<>&|") {
					return lab, strings.TrimSpace(s[i+1:])
				}
				return "", s
			}
			if !(unicode.IsLetter(rune(c)) || unicode.IsDigit(rune(c)) || c == '-' || c == '_' || c == '!') {
				return "", s
			}
		}
		return "", s
	}
	for _, el := range elems {
		switch el.kw {
		case "func", "extern", "interface":
			curL = nil
			fields := strings.Fields(el.rest)
			if len(fields) == 0 {
				errf(el.no, "missing name")
				continue
			}
			key := fields[0]
			curF = &FuncContract{Key: key, Origin: fmt.Sprintf("%s:%d", origin, el.no)}
			switch el.kw {
			case "func":
				if _, dup := C.Funcs[key]; dup {
					errf(el.no, "duplicate contract for %s", key)
				}
				C.Funcs[key] = curF
			case "extern":
				curF.IsExtern = true
				curF.Trusted = true
				C.Externs[key] = curF
			case "interface":
				curF.IsIface = true
				curF.Trusted = true
				C.Ifaces[key] = curF
			}
		case "loop":
			curF = nil
			k := strings.TrimSpace(el.rest)
			i := strings.LastIndex(k, "#")
			if i < 0 {
				errf(el.no, "loop needs key#ordinal")
				continue
			}
			n, err := strconv.Atoi(strings.TrimSpace(k[i+1:]))
			if err != nil {
				errf(el.no, "bad loop ordinal")
				continue
			}
			curL = &LoopSpec{Key: strings.TrimSpace(k[:i]), Ordinal: n}
			C.Loops[fmt.Sprintf("%s#%d", curL.Key, n)] = curL
		case "storage-interfaces":
			// interfaces of the pluggable storage: a failing call of one of their methods sets the ghost flag storageFailed
			curF, curL = nil, nil
			if C.StorageIfaces == nil {
				C.StorageIfaces = map[string]bool{}
			}
			for _, f := range strings.Fields(el.rest) {
				C.StorageIfaces[f] = true
			}
		case "storage-lookups":
			// storage methods whose error is a documented "not found" answer, not a failure
			curF, curL = nil, nil
			if C.StorageLookups == nil {
				C.StorageLookups = map[string]bool{}
			}
			for _, f := range strings.Fields(el.rest) {
				C.StorageLookups[f] = true
			}
		case "immutable":
			// immutable <Method>...: getters (by method name) whose result does not change during a request
			curF, curL = nil, nil
			if C.Immutable == nil {
				C.Immutable = map[string]string{}
			}
			for _, f := range strings.Fields(el.rest) {
				C.Immutable[f] = fmt.Sprintf("%s:%d", origin, el.no)
			}
		case "spec":
			curF, curL = nil, nil
			C.parseSpecFunc(el.rest, el.no, errf)
		case "ghost":
			curF, curL = nil, nil
			C.parseGhost(el.rest, el.no, errf)
		case "axiom", "lemma":
			curF, curL = nil, nil
			lab, rest := splitLabel(el.rest)
			e, err := parseExpr(rest)
			if err != nil {
				errf(el.no, "%v in %q", err, rest)
				continue
			}
			C.Lemmas = append(C.Lemmas, &Lemma{Label: lab, Expr: e, Src: rest, Axiom: el.kw == "axiom"})
		case "requires", "ensures", "invariant", "defines", "continues-only-if":
			lab, rest := splitLabel(el.rest)
			e, err := parseExpr(rest)
			if err != nil {
				errf(el.no, "%v in %q", err, rest)
				continue
			}
			noCover := strings.HasSuffix(lab, "!")
			lab = strings.TrimSuffix(lab, "!")
			cl := Clause{NoCover: noCover, Label: lab, Expr: e, Src: rest, UsesCallres: strings.Contains(rest, "callres(") || strings.Contains(rest, "callarg(") || strings.Contains(rest, "called(") || strings.Contains(rest, "calledAny(") || strings.Contains(rest, "lastres(") || strings.Contains(rest, "lastarg(")}
			switch {
			case el.kw == "continues-only-if" && curL != nil:
				if cl.Label == "" {
					cl.Label = fmt.Sprintf("c%d", len(curL.BackAsserts)+1)
				}
				curL.BackAsserts = append(curL.BackAsserts, cl)
			case el.kw == "invariant" && curL != nil:
				if cl.Label == "" {
					cl.Label = fmt.Sprint(len(curL.Invariants) + 1)
				}
				curL.Invariants = append(curL.Invariants, cl)
			case el.kw == "requires" && curF != nil:
				if cl.Label == "" {
					cl.Label = fmt.Sprint(len(curF.Requires) + 1)
				}
				curF.Requires = append(curF.Requires, cl)
			case (el.kw == "ensures" || el.kw == "defines") && curF != nil:
				cl.Defines = el.kw == "defines"
				if cl.Label == "" {
					cl.Label = fmt.Sprint(len(curF.Ensures) + 1)
				}
				curF.Ensures = append(curF.Ensures, cl)
			default:
				errf(el.no, "%s outside matching declaration", el.kw)
			}
		case "modifies":
			if curF == nil {
				errf(el.no, "modifies outside func")
				continue
			}
			rest := strings.TrimSpace(el.rest)
			if curF.Modifies == nil {
				curF.Modifies = []*Expr{}
			}
			if rest == "nothing" {
				continue
			}
			if rest == "fresh" {
				curF.ModFresh = true
				continue
			}
			for _, part := range splitTop(rest) {
				e, err := parseExpr(part)
				if err != nil {
					errf(el.no, "%v in %q", err, part)
					continue
				}
				curF.Modifies = append(curF.Modifies, e)
			}
		case "pure":
			if curF != nil {
				curF.Pure = true
				if curF.Modifies == nil {
					curF.Modifies = []*Expr{}
				}
			}
		case "effectful":
			if curF != nil {
				curF.Effectful = true
			}
		case "trusted":
			if curF != nil {
				curF.Trusted = true
			}
		case "noinline":
			if curF != nil {
				curF.NoInline = true
			}
		case "unframed":
			if curF != nil {
				curF.Unframed = true
			}
		case "params":
			if curF != nil {
				for _, f := range strings.FieldsFunc(el.rest, func(r rune) bool { return r == ',' || r == ' ' }) {
					curF.Params = append(curF.Params, f)
				}
			}
		}
	}
}

func splitTop(s string) []string {
	var out []string
	d := 0
	start := 0
	for i, c := range s {
		switch c {
		case '(', '[':
			d++
		case ')', ']':
			d--
		case ',':
			if d == 0 {
				out = append(out, strings.TrimSpace(s[start:i]))
				start = i + 1
			}
		}
	}
	if strings.TrimSpace(s[start:]) != "" {
		out = append(out, strings.TrimSpace(s[start:]))
	}
	return out
}

// spec func name(a T, b U) R [= expr]
func (C *Contracts) parseSpecFunc(rest string, no int, errf func(int, string, ...any)) {
	rest = strings.TrimSpace(strings.TrimPrefix(strings.TrimSpace(rest), "func"))
	open := strings.Index(rest, "(")
	if open < 0 {
		errf(no, "bad spec func")
		return
	}
	name := strings.TrimSpace(rest[:open])
	// find matching close
	d, cl := 0, -1
	for i := open; i < len(rest); i++ {
		if rest[i] == '(' {
			d++
		} else if rest[i] == ')' {
			d--
			if d == 0 {
				cl = i
				break
			}
		}
	}
	if cl < 0 {
		errf(no, "bad spec func params")
		return
	}
	sf := &SpecFunc{Name: name, Pkg: C.curPkg}
	for _, p := range splitTop(rest[open+1 : cl]) {
		f := strings.Fields(p)
		if len(f) != 2 {
			errf(no, "bad spec param %q", p)
			return
		}
		sf.Params = append(sf.Params, SpecParam{f[0], f[1]})
	}
	after := strings.TrimSpace(rest[cl+1:])
	body := ""
	if i := strings.Index(after, "="); i >= 0 && !strings.HasPrefix(after[i:], "==") {
		body = strings.TrimSpace(after[i+1:])
		after = strings.TrimSpace(after[:i])
	}
	sf.Ret = after
	if body != "" {
		e, err := parseExpr(body)
		if err != nil {
			errf(no, "%v in spec func body %q", err, body)
			return
		}
		sf.Body = e
	}
	C.Specs[name] = sf
}

// ghost var name T | ghost map name[K] V
func (C *Contracts) parseGhost(rest string, no int, errf func(int, string, ...any)) {
	f := strings.Fields(rest)
	if len(f) < 3 {
		errf(no, "bad ghost decl")
		return
	}
	switch f[0] {
	case "var":
		C.Ghosts[f[1]] = &GhostDecl{Name: f[1], Type: f[2]}
	case "map":
		// name[K] V
		s := strings.Join(f[1:], " ")
		i, j := strings.Index(s, "["), strings.Index(s, "]")
		if i < 0 || j < i {
			errf(no, "bad ghost map")
			return
		}
		name := strings.TrimSpace(s[:i])
		C.Ghosts[name] = &GhostDecl{Name: name, IsMap: true, Key: strings.TrimSpace(s[i+1 : j]), Type: strings.TrimSpace(s[j+1:])}
	default:
		errf(no, "bad ghost decl")
	}
}

// LoadContracts reads the contract files of /repo (from the loaded program) and /verif/specs.
func LoadContracts(P *Program, specDir string) *Contracts {
	C := NewContracts()
	var paths []string
	for p := range P.ContractFiles {
		paths = append(paths, p)
	}
	sort.Strings(paths)
	for _, p := range paths {
		for _, txt := range P.ContractFiles[p] {
			C.ParseContractText(shortPkg(p)+"/zz_verif_contracts.go", txt)
		}
	}
	if specDir != "" {
		files, _ := filepath.Glob(filepath.Join(specDir, "*.spec"))
		sort.Strings(files)
		for _, f := range files {
			b, err := os.ReadFile(f)
			if err != nil {
				C.Errors = append(C.Errors, err.Error())
				continue
			}
			C.ParseContractText(filepath.Base(f), string(b))
		}
	}
	C.validateBindings(P)
	return C
}

// validateBindings: every contract must name an existing function / interface method; an orphan
// contract is a hard error (it would otherwise be silently ignored).
func (C *Contracts) validateBindings(P *Program) {
	for k, ct := range C.Funcs {
		if fn := P.Funcs[k]; fn == nil || len(fn.Blocks) == 0 {
			C.Errors = append(C.Errors, fmt.Sprintf("%s: contract for unknown function %s", ct.Origin, k))
		}
	}
	for k, ct := range C.Ifaces {
		parts := strings.Split(k, ".")
		ok := false
		if len(parts) == 3 {
			if pkg := P.pkgByShort(parts[0]); pkg != nil {
				if tn, isT := pkg.Scope().Lookup(parts[1]).(*types.TypeName); isT {
					if it, isI := tn.Type().Underlying().(*types.Interface); isI {
						for i := 0; i < it.NumExplicitMethods(); i++ {
							if it.ExplicitMethod(i).Name() == parts[2] {
								ok = true
							}
						}
					}
				}
			}
		}
		if !ok {
			C.Errors = append(C.Errors, fmt.Sprintf("%s: interface contract %s does not name a method declared in that interface", ct.Origin, k))
		}
	}
	for k, l := range C.Loops {
		if fn := P.Funcs[l.Key]; fn == nil {
			C.Errors = append(C.Errors, fmt.Sprintf("loop spec %s: unknown function", k))
		}
	}
}

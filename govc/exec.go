package main

import (
	"fmt"
	"go/token"
	"go/types"
	"sort"
	"strings"

	"golang.org/x/tools/go/ssa"
)

type edgeIn struct {
	from *ssa.BasicBlock
	cond Term
	st   *State
}

type loopInfo struct {
	header  *ssa.BasicBlock
	body    map[*ssa.BasicBlock]bool
	ordinal int
}

// cfgInfo: reachable blocks in topological order (back edges removed) and loop structure.
type cfgInfo struct {
	order    []*ssa.BasicBlock
	backEdge map[[2]int]bool
	loops    map[*ssa.BasicBlock]*loopInfo
}

func analyzeCFG(fn *ssa.Function) *cfgInfo {
	ci := &cfgInfo{backEdge: map[[2]int]bool{}, loops: map[*ssa.BasicBlock]*loopInfo{}}
	if len(fn.Blocks) == 0 {
		return ci
	}
	// DFS for back edges (reducible CFGs: target on DFS stack == dominates)
	state := map[*ssa.BasicBlock]int{}
	var post []*ssa.BasicBlock
	var dfs func(b *ssa.BasicBlock)
	dfs = func(b *ssa.BasicBlock) {
		state[b] = 1
		for _, s := range b.Succs {
			switch state[s] {
			case 0:
				dfs(s)
			case 1:
				ci.backEdge[[2]int{b.Index, s.Index}] = true
			}
		}
		state[b] = 2
		post = append(post, b)
	}
	dfs(fn.Blocks[0])
	for i := len(post) - 1; i >= 0; i-- {
		ci.order = append(ci.order, post[i])
	}
	// natural loops
	var headers []*ssa.BasicBlock
	for e := range ci.backEdge {
		h := fn.Blocks[e[1]]
		l := ci.loops[h]
		if l == nil {
			l = &loopInfo{header: h, body: map[*ssa.BasicBlock]bool{h: true}}
			ci.loops[h] = l
			headers = append(headers, h)
		}
		// blocks reaching latch without passing header
		var stack []*ssa.BasicBlock
		latch := fn.Blocks[e[0]]
		if !l.body[latch] {
			l.body[latch] = true
			stack = append(stack, latch)
		}
		for len(stack) > 0 {
			b := stack[len(stack)-1]
			stack = stack[:len(stack)-1]
			for _, p := range b.Preds {
				if state[p] != 0 && !l.body[p] {
					l.body[p] = true
					stack = append(stack, p)
				}
			}
		}
	}
	// ordinals by source position of the header (fall back to block index)
	sort.Slice(headers, func(i, j int) bool {
		pi, pj := blockPos(headers[i]), blockPos(headers[j])
		if pi != pj {
			return pi < pj
		}
		return headers[i].Index < headers[j].Index
	})
	for i, h := range headers {
		ci.loops[h].ordinal = i + 1
	}
	return ci
}

func blockPos(b *ssa.BasicBlock) token.Pos {
	for _, in := range b.Instrs {
		if p := in.Pos(); p.IsValid() {
			return p
		}
	}
	for _, s := range b.Succs {
		for _, in := range s.Instrs {
			if p := in.Pos(); p.IsValid() {
				return p
			}
		}
	}
	return token.Pos(1 << 30)
}

func (vc *VC) newFrame(fn *ssa.Function, parent *Frame) *Frame {
	vc.frameCtr++
	fr := &Frame{vc: vc, fn: fn, key: funcKey(fn), prefix: fmt.Sprintf("f%d_", vc.frameCtr),
		vals: map[ssa.Value]Term{}, tuples: map[ssa.Value][]Term{}, prov: map[Term]Term{}, deferSt: map[*ssa.Defer][]Term{}}
	if parent != nil {
		fr.depth = parent.depth + 1
		fr.stack = append(append([]string{}, parent.stack...), parent.key)
	} else {
		fr.isRoot = true
	}
	return fr
}

// mergeStates joins the states of the incoming edges of a block.
func (vc *VC) mergeStates(name string, ins []edgeIn) *State {
	if len(ins) == 1 {
		st := ins[0].st.clone()
		st.reach = ins[0].cond
		return st
	}
	var conds []Term
	for _, e := range ins {
		conds = append(conds, e.cond)
	}
	reach := vc.sc.Fresh("reach_"+name, "Bool")
	vc.sc.Def(Eq(reach, Or(conds...)))
	st := &State{reach: reach, mem: map[string]Term{}}
	keys := map[string]bool{}
	for _, e := range ins {
		for k := range e.st.mem {
			keys[k] = true
		}
	}
	for _, k := range sortedKeys(keys) {
		same := true
		first := vc.getMem(ins[0].st, k, vc.memSorts[k])
		for _, e := range ins[1:] {
			if vc.getMem(e.st, k, vc.memSorts[k]) != first {
				same = false
			}
		}
		if same {
			st.mem[k] = first
			continue
		}
		nm := vc.newMemVersion(k)
		t := vc.getMem(ins[len(ins)-1].st, k, vc.memSorts[k])
		for i := len(ins) - 2; i >= 0; i-- {
			t = Ite(ins[i].cond, vc.getMem(ins[i].st, k, vc.memSorts[k]), t)
		}
		vc.sc.Def(Eq(nm, t))
		st.mem[k] = nm
	}
	// clock
	sameClk := true
	for _, e := range ins[1:] {
		if e.st.clk != ins[0].st.clk {
			sameClk = false
		}
	}
	if sameClk {
		st.clk = ins[0].st.clk
	} else {
		nc := vc.sc.Fresh("clk", "Int")
		t := ins[len(ins)-1].st.clk
		for i := len(ins) - 2; i >= 0; i-- {
			t = Ite(ins[i].cond, ins[i].st.clk, t)
		}
		vc.sc.Def(Eq(nc, t))
		st.clk = nc
	}
	return st
}

// run executes the frame's function body symbolically from entry state st with the given
// parameter (and free variable) terms. Returns the merged exit state and result terms
// (nil state when no return is reachable).
func (fr *Frame) run(st *State, params, freevars []Term) (*State, []Term) {
	vc := fr.vc
	fn := fr.fn
	fr.entrySt = st.clone()
	fr.params = params
	for i, p := range fn.Params {
		if i < len(params) {
			fr.vals[p] = params[i]
		}
	}
	for i, f := range fn.FreeVars {
		if i < len(freevars) {
			fr.vals[f] = freevars[i]
		} else {
			fr.vals[f] = vc.sc.Fresh(fr.prefix+"fv_"+f.Name(), vc.sortOf(f.Type()))
		}
	}
	if fr.isRoot {
		// nil policy: the parameters (and captured variables) of the function under analysis are
		// entry values, also after they have been copied into a local cell (captured parameters)
		trust := func(t Term, ty types.Type) {
			sort := vc.sortOf(ty)
			if sort != "Ref" && sort != "Val" {
				return
			}
			key := vc.memKey(ty)
			pred := "entryT_" + sanitize(key)
			vc.sc.DeclFun(pred, []string{sort}, "Bool")
			vc.sc.Axiom(sx(pred, t))
		}
		for i, p := range fn.Params {
			if i < len(params) {
				trust(params[i], p.Type())
			}
		}
		for _, f := range fn.FreeVars {
			if et, ok := typesPointerElem(f.Type()); ok {
				_ = et
			}
			trust(fr.vals[f], f.Type())
		}
	}
	ci := analyzeCFG(fn)
	edges := map[*ssa.BasicBlock][]edgeIn{}
	for _, b := range ci.order {
		var cur *State
		ins := edges[b]
		if b == fn.Blocks[0] {
			cur = st.clone()
		} else {
			if len(ins) == 0 {
				continue
			}
			if l := ci.loops[b]; l != nil {
				cur = fr.enterLoop(l, ins, ci)
			} else {
				cur = vc.mergeStates(fmt.Sprintf("%sb%d", fr.prefix, b.Index), ins)
			}
		}
		if cur == nil {
			continue
		}
		// phis (non loop headers)
		if ci.loops[b] == nil {
			for _, in := range b.Instrs {
				phi, ok := in.(*ssa.Phi)
				if !ok {
					break
				}
				fr.definePhi(phi, ins)
			}
		}
		terminated := false
		for _, in := range b.Instrs {
			if _, ok := in.(*ssa.Phi); ok {
				continue
			}
			if fr.instr(cur, in, b, ci, edges) {
				terminated = true
				break
			}
		}
		_ = terminated
	}
	if len(fr.rets) == 0 {
		return nil, nil
	}
	// merge returns
	var rins []edgeIn
	for _, r := range fr.rets {
		rins = append(rins, edgeIn{cond: r.st.reach, st: r.st})
	}
	out := vc.mergeStates(fr.prefix+"ret", rins)
	nres := fn.Signature.Results().Len()
	results := make([]Term, nres)
	for i := 0; i < nres; i++ {
		if len(fr.rets) == 1 {
			results[i] = fr.rets[0].results[i]
			continue
		}
		t := fr.rets[len(fr.rets)-1].results[i]
		for j := len(fr.rets) - 2; j >= 0; j-- {
			t = Ite(fr.rets[j].st.reach, fr.rets[j].results[i], t)
		}
		rn := vc.sc.Fresh(fr.prefix+"res", vc.sortOf(fn.Signature.Results().At(i).Type()))
		vc.sc.Def(Eq(rn, t))
		results[i] = rn
		// propagate function identity when all returns agree
		if ci0, ok := vc.closures[fr.rets[0].results[i]]; ok {
			all := true
			for _, r := range fr.rets[1:] {
				if vc.closures[r.results[i]] != ci0 {
					all = false
				}
			}
			if all {
				vc.closures[rn] = ci0
			}
		}
	}
	if len(fr.rets) == 1 {
		for i := range results {
			_ = i
		}
	}
	return out, results
}

func (fr *Frame) definePhi(phi *ssa.Phi, ins []edgeIn) {
	vc := fr.vc
	b := phi.Block()
	var t Term
	first := true
	// iterate over incoming edges in reverse to build nested ite
	for i := len(ins) - 1; i >= 0; i-- {
		e := ins[i]
		var v Term
		found := false
		for pi, p := range b.Preds {
			if p == e.from {
				v = fr.val(phi.Edges[pi])
				found = true
				break
			}
		}
		if !found {
			continue
		}
		if first {
			t = v
			first = false
		} else {
			t = Ite(e.cond, v, t)
		}
	}
	if first {
		fr.freshVal(phi)
		return
	}
	_ = vc
	fr.define(phi, t)
}

// addEdge records the state flowing along b -> succ under cond.
func (fr *Frame) addEdge(b, succ *ssa.BasicBlock, cond Term, st *State, ci *cfgInfo, edges map[*ssa.BasicBlock][]edgeIn) {
	vc := fr.vc
	ec := vc.sc.Fresh(fmt.Sprintf("%se%d_%d", fr.prefix, b.Index, succ.Index), "Bool")
	vc.sc.Def(Eq(ec, cond))
	if ci.backEdge[[2]int{b.Index, succ.Index}] {
		s2 := st.clone()
		s2.reach = ec
		fr.loopBack(ci.loops[succ], b, s2)
		return
	}
	edges[succ] = append(edges[succ], edgeIn{from: b, cond: ec, st: st})
}

// instr translates one instruction; returns true when the block is terminated.
func (fr *Frame) instr(st *State, in ssa.Instruction, b *ssa.BasicBlock, ci *cfgInfo, edges map[*ssa.BasicBlock][]edgeIn) bool {
	vc := fr.vc
	switch x := in.(type) {
	case *ssa.DebugRef:
	case *ssa.Jump:
		fr.addEdge(b, b.Succs[0], st.reach, st, ci, edges)
		return true
	case *ssa.If:
		c := fr.val(x.Cond)
		fr.addEdge(b, b.Succs[0], And(st.reach, c), st, ci, edges)
		fr.addEdge(b, b.Succs[1], And(st.reach, Not(c)), st, ci, edges)
		return true
	case *ssa.Return:
		var rs []Term
		for _, r := range x.Results {
			rs = append(rs, fr.val(r))
		}
		fr.rets = append(fr.rets, retInfo{st: st.clone(), results: rs})
		return true
	case *ssa.Panic:
		if vc.opts.Safety {
			vc.oblig(fr, st, "explicit-panic", "", describe(x.X, 0), "false", x.Pos())
		}
		return true
	case *ssa.RunDefers:
		for _, d := range fr.defers {
			vc.Abstracted["deferred call treated as no-op: "+deferName(d)] = true
		}
	case *ssa.Defer:
		fr.defers = append(fr.defers, x)
		if _, ok := x.Call.Value.(*ssa.MakeClosure); ok {
			vc.errorf("%s: deferred closure not modelled", fr.key)
		}
	case *ssa.Go:
		vc.Abstracted["go statement (spawned body not joined): "+describe(x.Call.Value, 0)] = true
		fr.goStmt(st, x)
	case *ssa.Send:
		vc.Abstracted["channel send"] = true
	case *ssa.Store:
		fr.store(st, x)
	case *ssa.MapUpdate:
		fr.mapUpdate(st, x)
	case ssa.Value:
		fr.valueInstr(st, x)
	default:
		vc.errorf("%s: unsupported instruction %T", fr.key, in)
	}
	return false
}

func deferName(d *ssa.Defer) string {
	c := d.Call
	if c.IsInvoke() {
		return typeKey(c.Value.Type()) + "." + c.Method.Name()
	}
	if f := c.StaticCallee(); f != nil {
		return funcKey(f)
	}
	return describe(c.Value, 0)
}

// nilGoal: obligation that pointer/interface value v is non-nil, weakened for values that are
// untouched entry-state values (configuration well-formedness assumption, see DESIGN).
func (fr *Frame) nilGoal(v ssa.Value, t Term) Term {
	vc := fr.vc
	sort := vc.sortOf(v.Type())
	var goal Term
	switch sort {
	case "Ref":
		goal = Not(Eq(t, "nilref"))
	case "Val":
		goal = Not(Eq(t, "nilval"))
		if isTypeParam(v.Type()) {
			goal = And(goal, sx("vnn", t))
		}
	default:
		return "true"
	}
	if fr.trustedNonNil(v) || vc.trusted[t] {
		return "true"
	}
	if p, ok := fr.vc.prov[t]; ok {
		goal = Or(goal, p)
	}
	return goal
}

// trustedNonNil: values that are non-nil by construction or by the entry assumption.
func (fr *Frame) trustedNonNil(v ssa.Value) bool {
	switch x := v.(type) {
	case *ssa.Alloc, *ssa.FieldAddr, *ssa.IndexAddr, *ssa.Global, *ssa.MakeClosure, *ssa.MakeMap, *ssa.MakeChan, *ssa.Function:
		return true
	case *ssa.UnOp:
		if g, ok := x.X.(*ssa.Global); ok {
			// package-level variable only written by initialisation: trusted to be initialised
			if _, stable := fr.vc.stableGlobal(g); stable {
				return true
			}
		}
		return false
	case *ssa.Parameter:
		return fr.isRoot
	case *ssa.FreeVar:
		return true
	case *ssa.MakeInterface:
		return !isInterfaceLike(x.X.Type())
	}
	return false
}

func (fr *Frame) derefOblig(st *State, v ssa.Value, what string, pos token.Pos) {
	vc := fr.vc
	if !vc.opts.Safety {
		// still assume non-nil afterwards so that later reasoning matches Go semantics
		return
	}
	t := fr.val(v)
	g := fr.nilGoal(v, t)
	vc.oblig(fr, st, "nil-deref", "", what, g, pos)
}

func (fr *Frame) store(st *State, x *ssa.Store) {
	vc := fr.vc
	fr.derefOblig(st, x.Addr, describe(x.Addr, 0), x.Pos())
	a := fr.val(x.Addr)
	et := x.Addr.Type().Underlying().(*types.Pointer).Elem()
	fr.frameOblig(st, x.Addr, a, et, x.Pos())
	v := vc.coerce(fr.val(x.Val), x.Val.Type(), et)
	if _, isArr := types.Unalias(et).Underlying().(*types.Array); isArr {
		vc.Abstracted["store of array value"] = true
		return
	}
	vc.storeT(st, a, et, v)
}

func (fr *Frame) mapUpdate(st *State, x *ssa.MapUpdate) {
	vc := fr.vc
	m := fr.val(x.Map)
	mt, ok := x.Map.Type().Underlying().(*types.Map)
	if !ok {
		vc.Abstracted["map update on type parameter"] = true
		return
	}
	if vc.opts.Safety {
		g := Not(Eq(m, "nilref"))
		if !fr.trustedNonNil(x.Map) {
			if p, ok := fr.vc.prov[m]; ok {
				g = Or(g, p)
			}
			vc.oblig(fr, st, "nil-map", "", describe(x.Map, 0), g, x.Pos())
		}
	}
	fr.frameObligMap(st, x.Map, m, x.Pos())
	ks, vs := vc.sortOf(mt.Key()), vc.sortOf(mt.Elem())
	k := vc.coerce(fr.val(x.Key), x.Key.Type(), mt.Key())
	v := vc.coerce(fr.val(x.Value), x.Value.Type(), mt.Elem())
	kv, kin := mapKeys(mt)
	vsort := "(Array " + ks + " " + vs + ")"
	isort := "(Array " + ks + " Bool)"
	cur := vc.rawLoadSort(st, kv, vsort, m)
	curin := vc.rawLoadSort(st, kin, isort, m)
	vc.rawStoreSort(st, kv, vsort, m, sx("store", cur, k, v))
	vc.rawStoreSort(st, kin, isort, m, sx("store", curin, k, "true"))
}

func mapKeys(mt *types.Map) (string, string) {
	k := typeKey(mt.Key()) + "->" + typeKey(mt.Elem())
	return "mapv:" + k, "mapin:" + k
}

func (vc *VC) rawLoadSort(st *State, key, sort string, a Term) Term {
	return vc.rawLoad(st, key, sort, a)
}

func (vc *VC) rawStoreSort(st *State, key, sort string, a, v Term) {
	vc.rawStore(st, key, sort, a, v)
}

// valueInstr translates a value-defining instruction.
func (fr *Frame) valueInstr(st *State, v ssa.Value) {
	vc := fr.vc
	switch x := v.(type) {
	case *ssa.Alloc:
		et := x.Type().Underlying().(*types.Pointer).Elem()
		nm := x.Comment
		if nm == "" {
			nm = "new"
		}
		r := vc.alloc(st, fr.prefix+nm)
		fr.vals[x] = r
		vc.trusted[r] = true
		if at, ok := types.Unalias(et).Underlying().(*types.Array); ok {
			// array storage: elements zeroed
			for i := int64(0); i < at.Len() && i < 16; i++ {
				vc.assumeZero(st, vc.elemAddr(r, IntLit(i)), at.Elem())
			}
		} else {
			if _, isStruct := structOf(et); isStruct {
				vc.sc.Axiom(Eq(sx("okind", sx("root", r)), "0"))
			}
			vc.assumeZero(st, r, et)
			if typeKey(et) == "strings.Builder" {
				// the zero strings.Builder holds no runes (ghost Sb_runes, specs/10_stdlib.spec)
				key, sort := "G:Sb_runes", "(Array Ref Int)"
				vc.memSorts[key] = sort
				cur := vc.getMem(st, key, sort)
				nm := vc.newMemVersion(key)
				vc.sc.Def(Eq(nm, sx("store", cur, r, "0")))
				st.mem[key] = nm
			}
			if typeKey(et) == "bytes.Buffer" {
				// the zero bytes.Buffer is empty (ghost content used by the json model, json.go)
				vc.memSorts[bufKey] = bufSort
				vc.setBuf(st, vc.box(r, x.Type()), StrLit(""))
			}
		}
	case *ssa.BinOp:
		fr.define(x, fr.binop(st, x))
	case *ssa.UnOp:
		fr.unop(st, x)
	case *ssa.Call:
		res := fr.call(st, x)
		fr.bindResults(st, x, res)
	case *ssa.ChangeType:
		fr.define(x, fr.val(x.X))
	case *ssa.ChangeInterface:
		fr.define(x, fr.val(x.X))
	case *ssa.MakeInterface:
		fr.define(x, vc.box(fr.val(x.X), x.X.Type()))
	case *ssa.Convert:
		fr.convert(st, x)
	case *ssa.MultiConvert:
		fr.freshVal(x)
		vc.Abstracted["multi-convert"] = true
	case *ssa.SliceToArrayPointer:
		fr.freshVal(x)
		vc.Abstracted["slice to array pointer"] = true
	case *ssa.MakeClosure:
		r := vc.alloc(st, fr.prefix+"closure")
		var bs []Term
		for _, bnd := range x.Bindings {
			bs = append(bs, fr.val(bnd))
		}
		vc.closures[r] = &closureInfo{fn: x.Fn.(*ssa.Function), bindings: bs}
		fr.vals[x] = r
	case *ssa.MakeMap:
		r := vc.alloc(st, fr.prefix+"map")
		mt, ok := x.Type().Underlying().(*types.Map)
		if ok {
			ks := vc.sortOf(mt.Key())
			_, kin := mapKeys(mt)
			isort := "(Array " + ks + " Bool)"
			vc.rawStoreSort(st, kin, isort, r, "((as const "+isort+") false)")
		}
		fr.vals[x] = r
	case *ssa.MakeChan:
		fr.vals[x] = vc.alloc(st, fr.prefix+"chan")
	case *ssa.MakeSlice:
		fr.makeSlice(st, x)
	case *ssa.Slice:
		fr.sliceOp(st, x)
	case *ssa.FieldAddr:
		fr.derefOblig(st, x.X, describe(x, 0), x.Pos())
		pt := x.X.Type().Underlying().(*types.Pointer).Elem()
		vc.trusted[fr.define(x, vc.fieldAddr(fr.val(x.X), pt, x.Field))] = true
	case *ssa.Field:
		s := vc.sortOf(x.X.Type())
		if isTimeTime(x.X.Type()) {
			fr.freshVal(x)
			break
		}
		n := fr.define(x, sx(fmt.Sprintf("%s_f%d", s, x.Field), fr.val(x.X)))
		if vc.trusted[fr.val(x.X)] {
			vc.trusted[n] = true // field of a trusted (entry) struct value
		}
	case *ssa.IndexAddr:
		fr.indexAddr(st, x)
	case *ssa.Index:
		fr.index(st, x)
	case *ssa.Lookup:
		fr.lookup(st, x)
	case *ssa.Select:
		vc.Abstracted["select statement"] = true
		var ts []Term
		tup := x.Type().(*types.Tuple)
		for i := 0; i < tup.Len(); i++ {
			ts = append(ts, vc.sc.Fresh(fr.prefix+"sel", vc.sortOf(tup.At(i).Type())))
		}
		// the chosen case index is one of the cases (or -1 when a default exists)
		lo := "0"
		if !x.Blocking {
			lo = "(- 1)"
		}
		vc.sc.Assume(st.reach, And(sx("<=", lo, ts[0]), sx("<", ts[0], IntLit(int64(len(x.States))))))
		fr.tuples[x] = ts
	case *ssa.Range:
		fr.vals[x] = fr.val(x.X)
		if mt, isMap := types.Unalias(x.X.Type()).Underlying().(*types.Map); isMap {
			ks := vc.sortOf(mt.Key())
			gk := "G:ranged:" + fr.prefix + x.Name()
			vc.memSorts[gk] = "(Array " + ks + " Bool)"
			st.mem[gk] = "((as const (Array " + ks + " Bool)) false)"
			_, kin := mapKeys(mt)
			if fr.rangeIn0 == nil {
				fr.rangeIn0 = map[*ssa.Range]Term{}
			}
			fr.rangeIn0[x] = vc.rawLoadSort(st, kin, "(Array "+ks+" Bool)", fr.val(x.X))
		}
	case *ssa.Next:
		fr.next(st, x)
	case *ssa.TypeAssert:
		fr.typeAssert(st, x)
	case *ssa.Extract:
		tup := fr.tuples[x.Tuple]
		if x.Index < len(tup) {
			t := fr.define(x, tup[x.Index])
			_ = t
		} else {
			fr.freshVal(x)
		}
	case *ssa.Phi:
		// handled at block entry
	default:
		vc.errorf("%s: unsupported value instruction %T", fr.key, v)
		fr.freshVal(v)
	}
}

// assumeZero: a freshly allocated location holds the zero value. Nothing can have been stored at
// a fresh address, so this is stated about the current memory version instead of storing
// (keeps the number of memory versions small).
func (vc *VC) assumeZero(st *State, p Term, t types.Type) {
	var leaves []leafLoc
	vc.leafLocs(t, func(e Term) Term { return e }, &leaves)
	for _, lf := range leaves {
		a := lf.addr(p)
		m := vc.getMem(st, lf.key, "(Array Ref "+lf.sort+")")
		vc.noteAddr(lf.key, a)
		vc.sc.Def(Eq(sx("select", m, a), vc.zeroOf(lf.t)))
	}
}

func (fr *Frame) bindResults(st *State, call *ssa.Call, res []Term) {
	vc := fr.vc
	sig := call.Common().Signature()
	n := sig.Results().Len()
	switch {
	case n == 0:
	case n == 1:
		if len(res) == 1 {
			fr.define(call, vc.coerce(res[0], fr.calleeResultType(call, 0), call.Type()))
		} else {
			fr.freshVal(call)
		}
	default:
		if len(res) == n {
			tup := call.Type().(*types.Tuple)
			out := make([]Term, n)
			for i := range res {
				out[i] = vc.coerce(res[i], fr.calleeResultType(call, i), tup.At(i).Type())
				if out[i] != res[i] {
					// a generic result viewed at its concrete type exists now as well
					vc.older(st, out[i], vc.sortOf(tup.At(i).Type()))
				}
			}
			fr.tuples[call] = out
		} else {
			var ts []Term
			tup := call.Type().(*types.Tuple)
			for i := 0; i < tup.Len(); i++ {
				ts = append(ts, vc.sc.Fresh(fr.prefix+"r", vc.sortOf(tup.At(i).Type())))
			}
			fr.tuples[call] = ts
		}
	}
}

// calleeResultType: the declared (generic) result type of the callee, for coercion at generic boundaries.
func (fr *Frame) calleeResultType(call *ssa.Call, i int) types.Type {
	c := call.Common()
	if f := c.StaticCallee(); f != nil {
		if o := f.Origin(); o != nil {
			f = o
		}
		if i < f.Signature.Results().Len() {
			return f.Signature.Results().At(i).Type()
		}
	}
	return c.Signature().Results().At(i).Type()
}

func (fr *Frame) unop(st *State, x *ssa.UnOp) {
	vc := fr.vc
	switch x.Op {
	case token.MUL:
		et := x.Type()
		if g, ok := x.X.(*ssa.Global); ok {
			if t, ok := vc.stableGlobal(g); ok {
				vc.trusted[t] = true
				fr.define(x, t)
				return
			}
		}
		fr.derefOblig(st, x.X, describe(x.X, 0), x.Pos())
		a := fr.val(x.X)
		if _, isArr := types.Unalias(et).Underlying().(*types.Array); isArr {
			fr.freshVal(x)
			vc.Abstracted["load of array value"] = true
			return
		}
		val := vc.loadT(st, a, et)
		name := fr.define(x, val)
		sort := vc.sortOf(et)
		if sort == "Ref" || sort == "Val" {
			// provenance: the untouched entry-state value at this address
			fr.vc.prov[name] = vc.entryTrusted(vc.memKey(et), sort, name, a)
		}
		vc.wf(st, name, et)
	case token.NOT:
		fr.define(x, Not(fr.val(x.X)))
	case token.SUB:
		if vc.sortOf(x.Type()) == "Real" {
			fr.define(x, sx("-", fr.val(x.X)))
		} else {
			fr.define(x, sx("-", fr.val(x.X)))
		}
	case token.ARROW:
		vc.Abstracted["channel receive"] = true
		if x.CommaOk {
			tup := x.Type().(*types.Tuple)
			fr.tuples[x] = []Term{vc.sc.Fresh(fr.prefix+"recv", vc.sortOf(tup.At(0).Type())), vc.sc.Fresh(fr.prefix+"recvok", "Bool")}
		} else {
			fr.freshVal(x)
		}
	case token.XOR:
		vc.sc.DeclFun("int_not", []string{"Int"}, "Int")
		fr.define(x, sx("int_not", fr.val(x.X)))
	default:
		vc.errorf("%s: unsupported unary op %s", fr.key, x.Op)
		fr.freshVal(x)
	}
}

func (fr *Frame) binop(st *State, x *ssa.BinOp) Term {
	vc := fr.vc
	a, b := fr.val(x.X), fr.val(x.Y)
	sort := vc.sortOf(x.X.Type())
	// interface compared with concrete value: box the concrete side
	if sort == "Val" && vc.sortOf(x.Y.Type()) != "Val" {
		b = vc.box(b, x.Y.Type())
	} else if sort != "Val" && vc.sortOf(x.Y.Type()) == "Val" {
		a = vc.box(a, x.X.Type())
		sort = "Val"
	}
	if sort == "Slice" && (x.Op == token.EQL || x.Op == token.NEQ) {
		// slices compare only against nil: the data pointer decides
		other := a
		if a == "nilslice" {
			other = b
		}
		t := Eq(vc.sptr(other), "nilref")
		if x.Op == token.NEQ {
			t = Not(t)
		}
		return t
	}
	switch x.Op {
	case token.EQL:
		return Eq(a, b)
	case token.NEQ:
		return Not(Eq(a, b))
	case token.LSS, token.LEQ, token.GTR, token.GEQ:
		op := map[token.Token]string{token.LSS: "<", token.LEQ: "<=", token.GTR: ">", token.GEQ: ">="}[x.Op]
		if sort == "String" {
			sop := map[token.Token]string{token.LSS: "str.<", token.LEQ: "str.<="}
			switch x.Op {
			case token.LSS, token.LEQ:
				return sx(sop[x.Op], a, b)
			case token.GTR:
				return sx("str.<", b, a)
			default:
				return sx("str.<=", b, a)
			}
		}
		return sx(op, a, b)
	case token.ADD:
		if sort == "String" {
			return sx("str.++", a, b)
		}
		return sx("+", a, b)
	case token.SUB:
		return sx("-", a, b)
	case token.MUL:
		return sx("*", a, b)
	case token.QUO:
		if sort == "Real" {
			return sx("/", a, b)
		}
		if vc.opts.Safety {
			vc.oblig(fr, st, "div-zero", "", describe(x.Y, 0), Not(Eq(b, "0")), x.Pos())
		}
		return Ite(sx(">=", a, "0"), sx("div", a, b), sx("-", sx("div", sx("-", a), b)))
	case token.REM:
		if vc.opts.Safety {
			vc.oblig(fr, st, "div-zero", "", describe(x.Y, 0), Not(Eq(b, "0")), x.Pos())
		}
		q := Ite(sx(">=", a, "0"), sx("div", a, b), sx("-", sx("div", sx("-", a), b)))
		return sx("-", a, sx("*", b, q))
	case token.AND, token.OR, token.XOR, token.SHL, token.SHR, token.AND_NOT:
		if sort == "Bool" {
			switch x.Op {
			case token.AND:
				return And(a, b)
			case token.OR:
				return Or(a, b)
			}
		}
		fn := "int_" + map[token.Token]string{token.AND: "and", token.OR: "or", token.XOR: "xor", token.SHL: "shl", token.SHR: "shr", token.AND_NOT: "andnot"}[x.Op]
		vc.sc.DeclFun(fn, []string{"Int", "Int"}, "Int")
		return sx(fn, a, b)
	}
	vc.errorf("%s: unsupported binary op %s", fr.key, x.Op)
	return vc.sc.Fresh("binop", vc.sortOf(x.Type()))
}

func (fr *Frame) convert(st *State, x *ssa.Convert) {
	vc := fr.vc
	from, to := x.X.Type(), x.Type()
	fs, ts := vc.sortOf(from), vc.sortOf(to)
	v := fr.val(x.X)
	switch {
	case fs == ts && fs != "Slice":
		fr.define(x, v)
	case fs == "Int" && ts == "Real":
		fr.define(x, sx("to_real", v))
	case fs == "Real" && ts == "Int":
		// Go truncates toward zero; out-of-range conversions are implementation-defined
		tr := Ite(sx(">=", v, "0.0"), sx("to_int", v), sx("-", sx("to_int", sx("-", v))))
		if vc.opts.Safety {
			lim := "9223372036854775808.0"
			vc.oblig(fr, st, "float-range", "", describe(x.X, 0), And(sx("<", v, lim), sx(">=", v, sx("-", lim))), x.Pos())
		}
		fr.define(x, tr)
	case fs == "String" && ts == "Slice":
		r := vc.alloc(st, fr.prefix+"bytes")
		s := vc.mkSlice(r, sx("str.len", v), sx("str.len", v))
		n := fr.define(x, s)
		vc.sc.Def(Eq(sx("bstr", n), v))
	case fs == "Slice" && ts == "String":
		n := fr.define(x, sx("bstr", v))
		// the string has as many bytes as the slice it is made from
		vc.sc.Assume(st.reach, Eq(sx("str.len", n), sx("s-len", v)))
	case fs == "Int" && ts == "String":
		vc.sc.DeclFun("rune_str", []string{"Int"}, "String")
		fr.define(x, sx("rune_str", v))
	case fs == "Slice" && ts == "Slice":
		fr.define(x, v)
	default:
		vc.Abstracted[fmt.Sprintf("conversion %s -> %s", typeKey(from), typeKey(to))] = true
		fr.freshVal(x)
	}
}

func (fr *Frame) makeSlice(st *State, x *ssa.MakeSlice) {
	vc := fr.vc
	r := vc.alloc(st, fr.prefix+"mkslice")
	ln, cp := fr.val(x.Len), fr.val(x.Cap)
	if vc.opts.Safety {
		vc.oblig(fr, st, "makeslice-len", "", describe(x.Len, 0), And(sx("<=", "0", ln), sx("<=", ln, cp)), x.Pos())
	}
	et := x.Type().Underlying().(*types.Slice).Elem()
	fr.define(x, vc.mkSlice(r, ln, cp))
	vc.zeroFill(st, r, et)
}

// zeroFill states that all elements of the fresh array rooted at r hold the zero value.
func (vc *VC) zeroFill(st *State, r Term, et types.Type) {
	keys := map[string]types.Type{}
	vc.locKeys(et, keys)
	if _, ok := structOf(et); ok {
		// struct elements: per-field quantified facts are not generated; contents unconstrained
		vc.Abstracted["zero-fill of struct-element slice (contents left unconstrained)"] = true
		return
	}
	for _, k := range sortedKeys(keys) {
		kt := keys[k]
		m := vc.getMem(st, k, "(Array Ref "+vc.sortOf(kt)+")")
		vc.needElemAxioms()
		vc.sc.Def(fmt.Sprintf("(forall ((?i Int)) (! (= (select %s (elem %s ?i)) %s) :pattern ((elem %s ?i))))", m, r, vc.zeroOf(kt), r))
	}
}

func (vc *VC) needElemAxioms() {
	vc.sc.Axiom("(forall ((?b Ref) (?i Int)) (! (and (= (ebase (elem ?b ?i)) (ebase ?b)) (= (eidx (elem ?b ?i)) (+ (eidx ?b) ?i)) (= (ftag (elem ?b ?i)) 0) (= (root (elem ?b ?i)) (root ?b))) :pattern ((elem ?b ?i))))")
	vc.sc.Axiom("(forall ((?b Ref) (?a Int) (?i Int)) (! (= (elem (elem ?b ?a) ?i) (elem ?b (+ ?a ?i))) :pattern ((elem (elem ?b ?a) ?i))))")
}

func (fr *Frame) sliceOp(st *State, x *ssa.Slice) {
	vc := fr.vc
	v := fr.val(x.X)
	var lo, hi, mx Term
	if x.Low != nil {
		lo = fr.val(x.Low)
	} else {
		lo = "0"
	}
	switch t := types.Unalias(x.X.Type()).Underlying().(type) {
	case *types.Slice:
		if x.High != nil {
			hi = fr.val(x.High)
		} else {
			hi = sx("s-len", v)
		}
		cp := sx("s-cap", v)
		if x.Max != nil {
			mx = fr.val(x.Max)
		} else {
			mx = cp
		}
		if vc.opts.Safety && (x.Low != nil || x.High != nil || x.Max != nil) {
			vc.oblig(fr, st, "slice-bounds", "", describe(x.X, 0), And(sx("<=", "0", lo), sx("<=", lo, hi), sx("<=", hi, mx), sx("<=", mx, cp)), x.Pos())
		}
		fr.define(x, vc.mkSlice(vc.elemAddr(vc.sptr(v), lo), sx("-", hi, lo), sx("-", mx, lo)))
	case *types.Basic: // string
		if x.High != nil {
			hi = fr.val(x.High)
		} else {
			hi = sx("str.len", v)
		}
		if vc.opts.Safety && (x.Low != nil || x.High != nil) {
			vc.oblig(fr, st, "slice-bounds", "", describe(x.X, 0), And(sx("<=", "0", lo), sx("<=", lo, hi), sx("<=", hi, sx("str.len", v))), x.Pos())
		}
		fr.define(x, sx("str.substr", v, lo, sx("-", hi, lo)))
	case *types.Pointer: // *array
		at := t.Elem().Underlying().(*types.Array)
		n := IntLit(at.Len())
		if x.High != nil {
			hi = fr.val(x.High)
		} else {
			hi = n
		}
		if vc.opts.Safety && (x.Low != nil || x.High != nil) {
			vc.oblig(fr, st, "slice-bounds", "", describe(x.X, 0), And(sx("<=", "0", lo), sx("<=", lo, hi), sx("<=", hi, n)), x.Pos())
		}
		fr.define(x, vc.mkSlice(vc.elemAddr(v, lo), sx("-", hi, lo), sx("-", n, lo)))
	default:
		vc.Abstracted["slice of "+typeKey(x.X.Type())] = true
		fr.freshVal(x)
	}
}

func (fr *Frame) indexAddr(st *State, x *ssa.IndexAddr) {
	vc := fr.vc
	v := fr.val(x.X)
	i := fr.val(x.Index)
	switch t := types.Unalias(x.X.Type()).Underlying().(type) {
	case *types.Slice:
		if vc.opts.Safety {
			vc.oblig(fr, st, "index", "", describe(x.X, 0), And(sx("<=", "0", i), sx("<", i, sx("s-len", v))), x.Pos())
		}
		vc.trusted[fr.define(x, vc.elemAddr(vc.sptr(v), i))] = true
	case *types.Pointer:
		at := t.Elem().Underlying().(*types.Array)
		fr.derefOblig(st, x.X, describe(x.X, 0), x.Pos())
		if vc.opts.Safety {
			if _, isConst := x.Index.(*ssa.Const); !isConst {
				vc.oblig(fr, st, "index", "", describe(x.X, 0), And(sx("<=", "0", i), sx("<", i, IntLit(at.Len()))), x.Pos())
			}
		}
		fr.define(x, vc.elemAddr(v, i))
	default:
		vc.Abstracted["index address of "+typeKey(x.X.Type())] = true
		fr.freshVal(x)
	}
}

func simplifyAdd(a, b Term) Term {
	if a == "0" {
		return b
	}
	if b == "0" {
		return a
	}
	return sx("+", a, b)
}

func (fr *Frame) index(st *State, x *ssa.Index) {
	vc := fr.vc
	v := fr.val(x.X)
	i := fr.val(x.Index)
	switch types.Unalias(x.X.Type()).Underlying().(type) {
	case *types.Basic: // string
		if vc.opts.Safety {
			vc.oblig(fr, st, "index", "", describe(x.X, 0), And(sx("<=", "0", i), sx("<", i, sx("str.len", v))), x.Pos())
		}
		fr.define(x, sx("str.to_code", sx("str.at", v, i)))
	case *types.Array:
		fr.define(x, sx("select", v, i))
	default:
		vc.Abstracted["index of "+typeKey(x.X.Type())] = true
		fr.freshVal(x)
	}
}

func (fr *Frame) lookup(st *State, x *ssa.Lookup) {
	vc := fr.vc
	m := fr.val(x.X)
	mt, ok := types.Unalias(x.X.Type()).Underlying().(*types.Map)
	if !ok {
		// string index
		i := fr.val(x.Index)
		if vc.opts.Safety {
			vc.oblig(fr, st, "index", "", describe(x.X, 0), And(sx("<=", "0", i), sx("<", i, sx("str.len", m))), x.Pos())
		}
		fr.define(x, sx("str.to_code", sx("str.at", m, i)))
		return
	}
	ks, vs := vc.sortOf(mt.Key()), vc.sortOf(mt.Elem())
	kv, kin := mapKeys(mt)
	k := vc.coerce(fr.val(x.Index), x.Index.Type(), mt.Key())
	cur := vc.rawLoadSort(st, kv, "(Array "+ks+" "+vs+")", m)
	curin := vc.rawLoadSort(st, kin, "(Array "+ks+" Bool)", m)
	present := And(Not(Eq(m, "nilref")), sx("select", curin, k))
	val := Ite(present, sx("select", cur, k), vc.zeroOf(mt.Elem()))
	if x.CommaOk {
		vn := vc.sc.Fresh(fr.prefix+"lk", vs)
		vc.sc.Def(Eq(vn, val))
		on := vc.sc.Fresh(fr.prefix+"lkok", "Bool")
		vc.sc.Def(Eq(on, present))
		fr.tuples[x] = []Term{vn, on}
		vc.older(st, vn, vs)
	} else {
		n := fr.define(x, val)
		vc.older(st, n, vs)
	}
}

func (fr *Frame) next(st *State, x *ssa.Next) {
	vc := fr.vc
	tup := x.Type().(*types.Tuple)
	ok := vc.sc.Fresh(fr.prefix+"nextok", "Bool")
	k := vc.sc.Fresh(fr.prefix+"nextk", vc.sortOf(tup.At(1).Type()))
	v := vc.sc.Fresh(fr.prefix+"nextv", vc.sortOf(tup.At(2).Type()))
	rng := x.Iter.(*ssa.Range)
	if mt, isMap := types.Unalias(rng.X.Type()).Underlying().(*types.Map); isMap && vc.sortOf(tup.At(1).Type()) != "Int" || isMap && vc.sortOf(mt.Key()) == "Int" {
		m := fr.val(rng.X)
		ks, vs := vc.sortOf(mt.Key()), vc.sortOf(mt.Elem())
		kv, kin := mapKeys(mt)
		cur := vc.rawLoadSort(st, kv, "(Array "+ks+" "+vs+")", m)
		curin := vc.rawLoadSort(st, kin, "(Array "+ks+" Bool)", m)
		vc.sc.Assume(st.reach, Implies(ok, And(Not(Eq(m, "nilref")), sx("select", curin, k))))
		// ghost set of keys already produced by this range: each key at most once; when the range
		// ends every key of the map has been produced, provided the map's key set is still the one
		// it had when the range started (Go: entries added while ranging may be skipped)
		gk := "G:ranged:" + fr.prefix + rng.Name()
		gsort := "(Array " + ks + " Bool)"
		vc.memSorts[gk] = gsort
		if seen, have := st.mem[gk]; have {
			vc.sc.Assume(st.reach, Implies(ok, Not(sx("select", seen, k))))
			if in0, ok0 := fr.rangeIn0[rng]; ok0 {
				vc.sc.Assume(st.reach, Implies(And(Not(ok), Eq(curin, in0)),
					fmt.Sprintf("(forall ((?rk %s)) (! (=> (select %s ?rk) (select %s ?rk)) :pattern ((select %s ?rk))))", ks, curin, seen, curin)))
			}
			nm := vc.newMemVersion(gk)
			vc.sc.Def(Eq(nm, Ite(ok, sx("store", seen, k, "true"), seen)))
			st.mem[gk] = nm
		}
		if vc.sortOf(tup.At(2).Type()) == vs {
			vc.sc.Assume(st.reach, Implies(ok, Eq(v, sx("select", cur, k))))
		}
		vc.Abstracted["range over map: arbitrary element each iteration"] = true
	} else {
		vc.Abstracted["range over string: arbitrary rune each iteration"] = true
	}
	fr.tuples[x] = []Term{ok, k, v}
}

func (fr *Frame) typeAssert(st *State, x *ssa.TypeAssert) {
	vc := fr.vc
	v := fr.val(x.X)
	at := x.AssertedType
	var ok, res Term
	if isInterfaceLike(at) && !isTypeParam(at) {
		it := at.Underlying().(*types.Interface)
		if it.NumMethods() == 0 || (isInterfaceLike(x.X.Type()) && !isTypeParam(x.X.Type()) && types.Implements(x.X.Type(), it)) {
			// the static type already guarantees the methods: the assertion is a nil check
			ok = Not(Eq(v, "nilval"))
			if !x.CommaOk {
				if vc.opts.Safety {
					vc.oblig(fr, st, "nil-deref", "", describe(x, 0), fr.nilGoal(x.X, v), x.Pos())
				}
				fr.define(x, v)
				return
			}
		} else {
			ok = And(Not(Eq(v, "nilval")), vc.implementsPred(v, at))
		}
		res = v
	} else {
		ok = Eq(sx("typeOf", v), vc.tyID(at))
		res = sx(vc.unboxFn(at), v)
		vc.sc.Axiom(Implies(ok, Eq(vc.boxNoAxiom(at, res), v)))
		if isPointerLike(at) {
			// an interface holding a pointer: the pointer is non-nil exactly when the value is "valid"
			vc.sc.Axiom(Implies(ok, Eq(sx("vnn", v), Not(Eq(res, "nilref")))))
		}
	}
	if x.CommaOk {
		on := vc.sc.Fresh(fr.prefix+"taok", "Bool")
		vc.sc.Def(Eq(on, ok))
		rn := vc.sc.Fresh(fr.prefix+"ta", vc.sortOf(at))
		vc.sc.Def(Eq(rn, Ite(on, res, vc.zeroOf(at))))
		fr.tuples[x] = []Term{rn, on}
		vc.wf(st, rn, at)
		return
	}
	if vc.opts.Safety {
		vc.oblig(fr, st, "type-assert", "", describe(x, 0), ok, x.Pos())
	}
	n := fr.define(x, res)
	vc.wf(st, n, at)
}

func (vc *VC) boxNoAxiom(t types.Type, x Term) Term {
	return sx(vc.boxFn(t), x)
}

// implementsPred: does the dynamic type of v implement interface type it?
func (vc *VC) implementsPred(v Term, it types.Type) Term {
	name := "impl_" + symKey(it)
	vc.sc.DeclFun(name, []string{"Int"}, "Bool")
	vc.ifaceUsed[name] = it
	return sx(name, sx("typeOf", v))
}

func (fr *Frame) goStmt(st *State, x *ssa.Go) {
	// The spawned function runs concurrently; its effects are not joined. Preconditions of the
	// callee (contract) are checked at the spawn point.
	fr.vc.checkSpawn(fr, st, x)
}

var _ = strings.Contains

package main

import (
	"fmt"
	"go/constant"
	"go/token"
	"go/types"
	"strings"

	"golang.org/x/tools/go/ssa"
)

type extHandler func(fr *Frame, st *State, call ssa.CallInstruction, fn *ssa.Function, args []Term) ([]Term, bool)
type ifaceHandler func(fr *Frame, st *State, call ssa.CallInstruction, recv Term, args []Term) ([]Term, bool)

var extHandlers map[string]extHandler
var ifaceHandlers map[string]ifaceHandler

var purePkgs = map[string]bool{
	"strings": true, "strconv": true, "path": true, "unicode": true, "unicode/utf8": true, "bytes": true,
	"encoding/base64": true, "encoding/hex": true, "sort": true, "slices": true, "maps": true, "math": true,
	"net/url": true, "net": true, "path/filepath": true, "html": true, "mime": true, "regexp": true,
	"crypto/sha256": true, "crypto/sha512": true, "crypto/sha1": true, "hash": true, "crypto/subtle": true,
	"golang.org/x/text/language": true, "fmt": true, "errors": true, "reflect": true,
}

// pureExternal: external functions of these packages do not write memory reachable from the caller
// (except through explicit handlers) and are deterministic in their value arguments.
func pureExternal(fn *ssa.Function) bool {
	p := pkgOfFunc(fn)
	if p == nil {
		return false
	}
	if !purePkgs[p.Path()] {
		return false
	}
	n := fn.Name()
	if p.Path() == "fmt" {
		return strings.HasPrefix(n, "Sprint") || n == "Errorf"
	}
	if p.Path() == "slices" || p.Path() == "sort" {
		// in-place mutators are not pure
		for _, pre := range []string{"Delete", "Sort", "Reverse", "Compact", "Insert", "Replace", "Stable", "Strings", "Ints", "Slice", "Grow", "Clip"} {
			if strings.HasPrefix(n, pre) {
				return false
			}
		}
	}
	if p.Path() == "net/url" {
		// methods mutating url.Values / URL are handled by specs
		switch n {
		case "Add", "Set", "Del":
			return false
		}
	}
	return true
}

func timeAssumed(vc *VC) {
	vc.Assumed["time package: Time as integer nanoseconds; Now monotone; Add/Sub/Before/After/Round arithmetic"] = true
}

func init() {
	extHandlers = map[string]extHandler{
		"time.Now": func(fr *Frame, st *State, call ssa.CallInstruction, fn *ssa.Function, args []Term) ([]Term, bool) {
			vc := fr.vc
			timeAssumed(vc)
			t := vc.sc.Fresh("now", "Int")
			w := vc.getMem(st, "G:wallclock", "Int")
			vc.sc.Assume(st.reach, sx(">=", t, w))
			// wall clock readings are far from the zero time
			vc.sc.Assume(st.reach, sx(">", t, "0"))
			st.mem["G:wallclock"] = t
			vc.nowTerms = append(vc.nowTerms, t)
			return []Term{t}, true
		},
		"time.Time.Add":      func(fr *Frame, st *State, call ssa.CallInstruction, fn *ssa.Function, a []Term) ([]Term, bool) { timeAssumed(fr.vc); return []Term{sx("+", a[0], a[1])}, true },
		"time.Time.Sub":      func(fr *Frame, st *State, call ssa.CallInstruction, fn *ssa.Function, a []Term) ([]Term, bool) { timeAssumed(fr.vc); return []Term{sx("-", a[0], a[1])}, true },
		"time.Time.Before":   func(fr *Frame, st *State, call ssa.CallInstruction, fn *ssa.Function, a []Term) ([]Term, bool) { timeAssumed(fr.vc); return []Term{sx("<", a[0], a[1])}, true },
		"time.Time.After":    func(fr *Frame, st *State, call ssa.CallInstruction, fn *ssa.Function, a []Term) ([]Term, bool) { timeAssumed(fr.vc); return []Term{sx(">", a[0], a[1])}, true },
		"time.Time.Equal":    func(fr *Frame, st *State, call ssa.CallInstruction, fn *ssa.Function, a []Term) ([]Term, bool) { return []Term{Eq(a[0], a[1])}, true },
		"time.Time.IsZero":   func(fr *Frame, st *State, call ssa.CallInstruction, fn *ssa.Function, a []Term) ([]Term, bool) { return []Term{Eq(a[0], zeroTime)}, true },
		"time.Time.UTC":      func(fr *Frame, st *State, call ssa.CallInstruction, fn *ssa.Function, a []Term) ([]Term, bool) { return []Term{a[0]}, true },
		"time.Time.Local":    func(fr *Frame, st *State, call ssa.CallInstruction, fn *ssa.Function, a []Term) ([]Term, bool) { return []Term{a[0]}, true },
		"time.Time.In":       func(fr *Frame, st *State, call ssa.CallInstruction, fn *ssa.Function, a []Term) ([]Term, bool) { return []Term{a[0]}, true },
		"time.Time.Unix":     func(fr *Frame, st *State, call ssa.CallInstruction, fn *ssa.Function, a []Term) ([]Term, bool) { return []Term{sx("div", a[0], "1000000000")}, true },
		"time.Time.UnixNano": func(fr *Frame, st *State, call ssa.CallInstruction, fn *ssa.Function, a []Term) ([]Term, bool) { return []Term{a[0]}, true },
		"time.Unix": func(fr *Frame, st *State, call ssa.CallInstruction, fn *ssa.Function, a []Term) ([]Term, bool) {
			return []Term{sx("+", sx("*", a[0], "1000000000"), a[1])}, true
		},
		"time.Since": func(fr *Frame, st *State, call ssa.CallInstruction, fn *ssa.Function, a []Term) ([]Term, bool) {
			r, _ := extHandlers["time.Now"](fr, st, call, fn, nil)
			return []Term{sx("-", r[0], a[0])}, true
		},
		"time.Until": func(fr *Frame, st *State, call ssa.CallInstruction, fn *ssa.Function, a []Term) ([]Term, bool) {
			r, _ := extHandlers["time.Now"](fr, st, call, fn, nil)
			return []Term{sx("-", a[0], r[0])}, true
		},
		"time.Time.Round": func(fr *Frame, st *State, call ssa.CallInstruction, fn *ssa.Function, a []Term) ([]Term, bool) {
			timeAssumed(fr.vc)
			t, d := a[0], a[1]
			r := sx("+", zeroTime, sx("*", d, sx("div", sx("+", sx("-", t, zeroTime), sx("div", d, "2")), d)))
			return []Term{Ite(sx("<=", d, "0"), t, r)}, true
		},
		"time.Time.Truncate": func(fr *Frame, st *State, call ssa.CallInstruction, fn *ssa.Function, a []Term) ([]Term, bool) {
			t, d := a[0], a[1]
			r := sx("+", zeroTime, sx("*", d, sx("div", sx("-", t, zeroTime), d)))
			return []Term{Ite(sx("<=", d, "0"), t, r)}, true
		},
		"time.Duration.Seconds": func(fr *Frame, st *State, call ssa.CallInstruction, fn *ssa.Function, a []Term) ([]Term, bool) {
			// a Duration is an int64 at run time
			fr.vc.sc.Assume(st.reach, And(sx("<=", "(- 9223372036854775808)", a[0]), sx("<=", a[0], "9223372036854775807")))
			return []Term{sx("/", sx("to_real", a[0]), "1000000000.0")}, true
		},
		"errors.New": func(fr *Frame, st *State, call ssa.CallInstruction, fn *ssa.Function, a []Term) ([]Term, bool) {
			vc := fr.vc
			r := vc.sc.Fresh(fr.prefix+"errnew", "Val")
			vc.sc.Def(And(Not(Eq(r, "nilval")), sx("vnn", r), Eq(sx("typeOf", r), vc.tyIDByName("*errors.errorString"))))
			vc.plainErrs = append(vc.plainErrs, r)
			return []Term{r}, true
		},
		"errors.Join": func(fr *Frame, st *State, call ssa.CallInstruction, fn *ssa.Function, a []Term) ([]Term, bool) {
			vc := fr.vc
			n := int64(-1)
			if sl, ok := call.Common().Args[0].(*ssa.Slice); ok && sl.Low == nil && sl.High == nil {
				if al, ok := sl.X.(*ssa.Alloc); ok {
					if at, ok := al.Type().Underlying().(*types.Pointer).Elem().Underlying().(*types.Array); ok {
						n = at.Len()
					}
				}
			}
			if n < 0 || n > 6 {
				return nil, false
			}
			errT := types.Universe.Lookup("error").Type()
			var wraps []Term
			var anyNonNil []Term
			for i := int64(0); i < n; i++ {
				e := vc.loadT(st, vc.elemAddr(vc.sptr(a[0]), IntLit(i)), errT)
				wraps = append(wraps, e)
				anyNonNil = append(anyNonNil, Not(Eq(e, "nilval")))
			}
			r := vc.sc.Fresh(fr.prefix+"joined", "Val")
			vc.sc.Def(And(Eq(Not(Eq(r, "nilval")), Or(anyNonNil...)), Or(Eq(r, "nilval"), sx("vnn", r)), vc.notModuleErr(r)))
			vc.wrapFacts = append(vc.wrapFacts, wrapFact{r: r, wraps: wraps})
			return []Term{r}, true
		},
		"errors.Is": func(fr *Frame, st *State, call ssa.CallInstruction, fn *ssa.Function, a []Term) ([]Term, bool) {
			fr.vc.Assumed["errors.Is/As: uninterpreted chain predicates with wrap facts for fmt.Errorf(%w) and errors.New"] = true
			return []Term{fr.vc.isErrTerm(a[0], a[1])}, true
		},
		"errors.As": func(fr *Frame, st *State, call ssa.CallInstruction, fn *ssa.Function, a []Term) ([]Term, bool) {
			vc := fr.vc
			vc.Assumed["errors.Is/As: uninterpreted chain predicates with wrap facts for fmt.Errorf(%w) and errors.New"] = true
			argv := call.Common().Args[1]
			var ptrTerm Term
			var ptrT types.Type
			if mi, ok := argv.(*ssa.MakeInterface); ok {
				ptrTerm, ptrT = fr.val(mi.X), mi.X.Type()
			} else if bi, ok := vc.boxes[a[1]]; ok {
				ptrTerm, ptrT = bi.inner, bi.t
			}
			pt, ok := typesPointerElem(ptrT)
			if !ok {
				return nil, false
			}
			found := vc.asErrTerm(pt, a[0])
			ok1 := vc.sc.Fresh(fr.prefix+"as_ok", "Bool")
			vc.sc.Def(Eq(ok1, Not(Eq(found, vc.zeroOf(pt)))))
			if vc.contractErrs[a[0]] && isModuleType(pt) {
				// errors handed out by contracted module functions carry a module error type in
				// their chain only as their own dynamic type (assumption, listed)
				vc.Assumed["errors returned by contracted module functions do not wrap module error types (errors.As finds only the error itself)"] = true
				vc.sc.Assume(st.reach, Implies(ok1, Eq(sx("typeOf", a[0]), vc.tyID(pt))))
			}
			// *target = found when ok
			cur := vc.loadT(st, ptrTerm, pt)
			vc.storeT(st, ptrTerm, pt, Ite(ok1, found, cur))
			return []Term{ok1}, true
		},
		"fmt.Errorf": func(fr *Frame, st *State, call ssa.CallInstruction, fn *ssa.Function, a []Term) ([]Term, bool) {
			vc := fr.vc
			r := vc.sc.Fresh(fr.prefix+"errorf", "Val")
			vc.sc.Def(And(Not(Eq(r, "nilval")), sx("vnn", r), vc.notModuleErr(r)))
			var wraps []Term
			if c, ok := call.Common().Args[0].(*ssa.Const); ok && c.Value != nil && c.Value.Kind() == constant.String {
				format := constant.StringVal(c.Value)
				verbs := fmtVerbs(format)
				anyT := types.Universe.Lookup("any").Type()
				for i, v := range verbs {
					if v == 'w' {
						ea := vc.elemAddr(vc.sptr(a[1]), IntLit(int64(i)))
						wraps = append(wraps, vc.loadT(st, ea, anyT))
					}
				}
			} else {
				vc.Abstracted["fmt.Errorf with non-constant format"] = true
			}
			vc.wrapFacts = append(vc.wrapFacts, wrapFact{r: r, wraps: wraps})
			return []Term{r}, true
		},
		"strings.HasPrefix": func(fr *Frame, st *State, call ssa.CallInstruction, fn *ssa.Function, a []Term) ([]Term, bool) { return []Term{sx("str.prefixof", a[1], a[0])}, true },
		"strings.HasSuffix": func(fr *Frame, st *State, call ssa.CallInstruction, fn *ssa.Function, a []Term) ([]Term, bool) { return []Term{sx("str.suffixof", a[1], a[0])}, true },
		"strings.Contains":  func(fr *Frame, st *State, call ssa.CallInstruction, fn *ssa.Function, a []Term) ([]Term, bool) { return []Term{sx("str.contains", a[0], a[1])}, true },
		"strings.TrimPrefix": func(fr *Frame, st *State, call ssa.CallInstruction, fn *ssa.Function, a []Term) ([]Term, bool) {
			s, p := a[0], a[1]
			return []Term{Ite(sx("str.prefixof", p, s), sx("str.substr", s, sx("str.len", p), sx("-", sx("str.len", s), sx("str.len", p))), s)}, true
		},
		"strings.TrimSuffix": func(fr *Frame, st *State, call ssa.CallInstruction, fn *ssa.Function, a []Term) ([]Term, bool) {
			s, p := a[0], a[1]
			return []Term{Ite(sx("str.suffixof", p, s), sx("str.substr", s, "0", sx("-", sx("str.len", s), sx("str.len", p))), s)}, true
		},
		"strings.Split": func(fr *Frame, st *State, call ssa.CallInstruction, fn *ssa.Function, a []Term) ([]Term, bool) {
			vc := fr.vc
			vc.Assumed["strings.Split: result has splitCount(s,sep) >= 1 parts (sep non-empty), parts are splitPart(s,sep,i)"] = true
			vc.sc.DeclFun("splitCount", []string{"String", "String"}, "Int")
			vc.sc.DeclFun("splitPart", []string{"String", "String", "Int"}, "String")
			base := vc.alloc(st, fr.prefix+"split")
			n := sx("splitCount", a[0], a[1])
			r := vc.sc.Fresh(fr.prefix+"splitres", "Slice")
			vc.sc.Def(And(Eq(r, vc.mkSlice(base, n, n)), sx(">=", n, "1")))
			vc.needElemAxioms()
			key := vc.memKey(types.Typ[types.String])
			old := vc.getMem(st, key, "(Array Ref String)")
			nm := vc.newMemVersion(key)
			st.mem[key] = nm
			vc.havocs = append(vc.havocs, havocEvent{key: key, old: old, new: nm, pos: len(vc.sc.items), pred: func(x Term) Term { return Eq(sx("root", x), base) }})
			vc.sc.Def(fmt.Sprintf("(forall ((?i Int)) (! (= (select %s (elem %s ?i)) (splitPart %s %s ?i)) :pattern ((elem %s ?i))))", nm, base, a[0], a[1], base))
			return []Term{r}, true
		},
		"slices.Contains": func(fr *Frame, st *State, call ssa.CallInstruction, fn *ssa.Function, a []Term) ([]Term, bool) {
			vc := fr.vc
			sl, ok := types.Unalias(call.Common().Args[0].Type()).Underlying().(*types.Slice)
			if !ok {
				return nil, false
			}
			s := a[0]
			if vc.sortOf(call.Common().Args[0].Type()) != "Slice" {
				return nil, false
			}
			v := a[1]
			if vc.sortOf(call.Common().Args[1].Type()) != vc.sortOf(sl.Elem()) {
				v = vc.coerce(v, fn.Params[1].Type(), sl.Elem())
			}
			// args were coerced to the generic parameter types (Val for E); undo for the element
			if strings.HasPrefix(v, "(box_") {
				if bi, ok := vc.boxes[v]; ok {
					v = bi.inner
				}
			}
			if bi, ok := vc.boxes[s]; ok {
				s = bi.inner
			}
			r := vc.sc.Fresh(fr.prefix+"contains", "Bool")
			vc.sc.Def(Eq(r, vc.containsTerm(st, s, sl.Elem(), v)))
			return []Term{r}, true
		},
		"bytes.Equal": func(fr *Frame, st *State, call ssa.CallInstruction, fn *ssa.Function, a []Term) ([]Term, bool) {
			fr.vc.Assumed["byte slices are compared through their abstract content bstr (not mutated in place)"] = true
			return []Term{Eq(sx("bstr", a[0]), sx("bstr", a[1]))}, true
		},
		"encoding/base64.Encoding.DecodeString": func(fr *Frame, st *State, call ssa.CallInstruction, fn *ssa.Function, a []Term) ([]Term, bool) {
			vc := fr.vc
			vc.Assumed["base64 decoding is a function of its input and of the encoding used (b64urlDecode = RawURLEncoding; uninterpreted)"] = true
			dfn := "b64urlDecode"
			if n := b64EncodingName(call); n != "RawURLEncoding" {
				dfn = "b64Decode_" + n
			}
			vc.sc.DeclFun(dfn, []string{"String"}, "String")
			content := sx(dfn, a[1])
			base := vc.alloc(st, fr.prefix+"b64")
			r := vc.sc.Fresh(fr.prefix+"decoded", "Slice")
			vc.sc.Def(And(Eq(r, vc.mkSlice(base, sx("str.len", content), sx("str.len", content))), Eq(sx("bstr", r), content)))
			e := vc.sc.Fresh(fr.prefix+"b64err", "Val")
			vc.sc.Assume(st.reach, And(Or(Eq(e, "nilval"), sx("vnn", e)), vc.notModuleErr(e)))
			return []Term{r, e}, true
		},
		"encoding/base64.Encoding.EncodeToString": func(fr *Frame, st *State, call ssa.CallInstruction, fn *ssa.Function, a []Term) ([]Term, bool) {
			vc := fr.vc
			vc.Assumed["base64 encoding is a function of its input and of the encoding used (b64urlEncode = RawURLEncoding; uninterpreted); decoding inverts it"] = true
			efn, dfn := "b64urlEncode", "b64urlDecode"
			if n := b64EncodingName(call); n != "RawURLEncoding" {
				efn, dfn = "b64Encode_"+n, "b64Decode_"+n
			}
			vc.sc.DeclFun(efn, []string{"String"}, "String")
			vc.sc.DeclFun(dfn, []string{"String"}, "String")
			r := sx(efn, sx("bstr", a[1]))
			vc.sc.Axiom(Eq(sx(dfn, r), sx("bstr", a[1])))
			return []Term{r}, true
		},
		"encoding/json.Unmarshal": func(fr *Frame, st *State, call ssa.CallInstruction, fn *ssa.Function, a []Term) ([]Term, bool) {
			return fr.decodeIntoJSON(st, call, 1, a, "encoding/json.Unmarshal", a[0]), true
		},
		"bytes.HasSuffix": func(fr *Frame, st *State, call ssa.CallInstruction, fn *ssa.Function, a []Term) ([]Term, bool) {
			vc := fr.vc
			vc.wf(st, a[0], call.Common().Args[0].Type())
			vc.wf(st, a[1], call.Common().Args[1].Type())
			return []Term{sx("str.suffixof", sx("bstr", a[1]), sx("bstr", a[0]))}, true
		},
		"bytes.HasPrefix": func(fr *Frame, st *State, call ssa.CallInstruction, fn *ssa.Function, a []Term) ([]Term, bool) {
			vc := fr.vc
			vc.wf(st, a[0], call.Common().Args[0].Type())
			vc.wf(st, a[1], call.Common().Args[1].Type())
			return []Term{sx("str.prefixof", sx("bstr", a[1]), sx("bstr", a[0]))}, true
		},
		"bytes.TrimSpace": func(fr *Frame, st *State, call ssa.CallInstruction, fn *ssa.Function, a []Term) ([]Term, bool) {
			vc := fr.vc
			vc.sc.DeclFun("trimSpace", []string{"String"}, "String")
			content := sx("trimSpace", sx("bstr", a[0]))
			r := vc.sc.Fresh(fr.prefix+"trimmed", "Slice")
			// a sub-slice of the argument
			vc.sc.Def(And(Eq(sx("bstr", r), content), Eq(sx("s-len", r), sx("str.len", content)), sx("<=", sx("s-len", r), sx("s-cap", r)),
				Eq(sx("root", sx("s-ptr", r)), sx("root", vc.sptr(a[0])))))
			return []Term{r}, true
		},
		"encoding/json.Decoder.Decode": func(fr *Frame, st *State, call ssa.CallInstruction, fn *ssa.Function, a []Term) ([]Term, bool) {
			return fr.decodeInto(st, call, 1, a, "encoding/json.Decoder.Decode"), true
		},
		"github.com/zitadel/schema.Decoder.Decode": func(fr *Frame, st *State, call ssa.CallInstruction, fn *ssa.Function, a []Term) ([]Term, bool) {
			return fr.decodeInto(st, call, 1, a, "schema.Decoder.Decode"), true
		},
		"context.WithoutCancel": func(fr *Frame, st *State, call ssa.CallInstruction, fn *ssa.Function, a []Term) ([]Term, bool) {
			vc := fr.vc
			r := vc.sc.Fresh(fr.prefix+"ctx", "Val")
			vc.sc.DeclFun("detachedCtx", []string{"Val"}, "Bool")
			vc.sc.Def(And(Not(Eq(r, "nilval")), sx("vnn", r), sx("detachedCtx", r)))
			return []Term{r}, true
		},
		"context.Background": func(fr *Frame, st *State, call ssa.CallInstruction, fn *ssa.Function, a []Term) ([]Term, bool) {
			vc := fr.vc
			r := vc.sc.Fresh(fr.prefix+"ctx", "Val")
			vc.sc.DeclFun("detachedCtx", []string{"Val"}, "Bool")
			vc.sc.Def(And(Not(Eq(r, "nilval")), sx("vnn", r), sx("detachedCtx", r)))
			return []Term{r}, true
		},
	}
	registerJSONHandlers()
	// go-jose: (obj JSONWebSignature) Verify(key) has a value receiver; the spec identifies the JWS by
	// the pointer the receiver was loaded from (the parsed object), see specs/10_stdlib.spec.
	extHandlers["github.com/go-jose/go-jose/v4.JSONWebSignature.Verify"] = func(fr *Frame, st *State, call ssa.CallInstruction, fn *ssa.Function, a []Term) ([]Term, bool) {
		vc := fr.vc
		sf := vc.C.Specs["joseVerified"]
		if sf == nil {
			return nil, false
		}
		vc.Assumed["assumed external spec (handler): go-jose JSONWebSignature.Verify returns the signed payload only when the signature verifies under the given key: err == nil ==> joseVerified(jws, key, payload); err != nil ==> payload == nil"] = true
		args := call.Common().Args
		var recv Term
		if ld, ok := args[0].(*ssa.UnOp); ok && ld.Op == token.MUL {
			recv = fr.val(ld.X)
		} else {
			recv = vc.sc.Fresh(fr.prefix+"jwsobj", "Ref")
		}
		payload := vc.sc.Fresh(fr.prefix+"verified", "Slice")
		vc.wf(st, payload, fn.Signature.Results().At(0).Type())
		errv := vc.sc.Fresh(fr.prefix+"verr", "Val")
		vc.sc.Assume(st.reach, And(Or(Eq(errv, "nilval"), sx("vnn", errv)), vc.notModuleErr(errv)))
		vc.sc.Assume(st.reach, Implies(Not(Eq(errv, "nilval")), Eq(vc.sptr(payload), "nilref")))
		// the key: *jose.JSONWebKey boxed in any
		var keyT types.Type
		var keyPtr Term
		if mi, ok := args[1].(*ssa.MakeInterface); ok {
			keyPtr, keyT = fr.val(mi.X), mi.X.Type()
		} else if bi, ok := vc.boxes[a[1]]; ok {
			keyPtr, keyT = bi.inner, bi.t
		}
		if et, ok := typesPointerElem(keyT); ok && isNamed(et, "github.com/go-jose/go-jose/v4", "JSONWebKey") {
			env := &Env{vc: vc, st: st, names: map[string]cval{}, where: "go-jose Verify"}
			env.names["jws"] = cval{recv, CT{Sort: "Ref", T: types.NewPointer(args[0].Type())}}
			env.names["key"] = cval{vc.loadT(st, keyPtr, et), vc.ctOf(et)}
			env.names["payload"] = cval{sx("bstr", payload), CT{Sort: "String", T: types.Typ[types.String]}}
			ex, _ := parseExpr("joseVerified(jws, key, payload)")
			vc.sc.Assume(st.reach, Implies(Eq(errv, "nilval"), env.boolTerm(ex)))
			vc.reportEnvErrors(env)
		} else {
			vc.Abstracted["go-jose Verify with a key of statically unknown type"] = true
		}
		vc.recordCallSyms("github.com/go-jose/go-jose/v4.JSONWebSignature.Verify", fn.Signature, []Term{payload, errv})
		return []Term{payload, errv}, true
	}
	// url.Values.Get: a function of the map's contents and the key (first value or "")
	extHandlers["net/url.Values.Get"] = func(fr *Frame, st *State, call ssa.CallInstruction, fn *ssa.Function, a []Term) ([]Term, bool) {
		vc := fr.vc
		if fn.Signature.Recv() == nil {
			return nil, false
		}
		mt, ok := types.Unalias(fn.Signature.Recv().Type()).Underlying().(*types.Map)
		if !ok {
			return nil, false
		}
		return []Term{vc.valuesGet(st, a[0], mt, a[1])}, true
	}
	ifaceHandlers = map[string]ifaceHandler{}
}

// valuesGet: url.Values(m).Get(key) as an uninterpreted function of the map's contents.
func (vc *VC) valuesGet(st *State, m Term, mt *types.Map, key Term) Term {
	vc.Assumed["url.Values.Get is a function of the map contents and the key (value slices are not mutated in place)"] = true
	ks, vs := vc.sortOf(mt.Key()), vc.sortOf(mt.Elem())
	kv, kin := mapKeys(mt)
	cur := vc.rawLoadSort(st, kv, "(Array "+ks+" "+vs+")", m)
	curin := vc.rawLoadSort(st, kin, "(Array "+ks+" Bool)", m)
	vc.sc.DeclFun("valuesGet", []string{"(Array " + ks + " " + vs + ")", "(Array " + ks + " Bool)", "String"}, "String")
	return Ite(Eq(m, "nilref"), StrLit(""), sx("valuesGet", cur, curin, key))
}

func typesPointerElem(t types.Type) (types.Type, bool) {
	if t == nil {
		return nil, false
	}
	p, ok := types.Unalias(t).Underlying().(*types.Pointer)
	if !ok {
		return nil, false
	}
	return p.Elem(), true
}

// fmtVerbs lists the verbs of a format string in operand order (no explicit indexes supported).
func fmtVerbs(f string) []byte {
	var out []byte
	for i := 0; i < len(f); i++ {
		if f[i] != '%' {
			continue
		}
		i++
		for i < len(f) && strings.ContainsRune("+-# 0123456789.", rune(f[i])) {
			i++
		}
		if i < len(f) {
			if f[i] == '%' {
				continue
			}
			out = append(out, f[i])
		}
	}
	return out
}

// decodeInto: a decoder writes an arbitrary value into its target (deeply); a pointer-typed
// target may become nil (JSON null), freshly allocated objects may be linked in.
func (fr *Frame) decodeInto(st *State, call ssa.CallInstruction, argIdx int, a []Term, name string) []Term {
	vc := fr.vc
	vc.Assumed["decoder "+name+": target receives an arbitrary value (pointer targets may become nil), nothing else changes; does not panic"] = true
	clk := vc.bumpClock(st)
	argv := call.Common().Args[argIdx]
	done := false
	before := st.clone()
	linked := func(p Term, pt types.Type) { vc.assumeLinkedFresh(st, before, p, pt, clk) }
	if mi, ok := argv.(*ssa.MakeInterface); ok {
		if pt, ok := typesPointerElem(mi.X.Type()); ok {
			vc.havocPointee(st, fr.val(mi.X), pt, true, clk)
			linked(fr.val(mi.X), pt)
			done = true
		}
	}
	if !done {
		if bi, ok := vc.boxes[a[argIdx]]; ok {
			if pt, ok := typesPointerElem(bi.t); ok {
				vc.havocPointee(st, bi.inner, pt, true, clk)
				linked(bi.inner, pt)
				done = true
			}
		}
	}
	if !done {
		if pt, ok := typesPointerElem(argv.Type()); ok {
			vc.havocPointee(st, a[argIdx], pt, true, clk)
			linked(a[argIdx], pt)
			done = true
		}
	}
	if !done {
		vc.havocOS(st, a[argIdx], nil)
		vc.Abstracted["decode into value of statically unknown type (abstract state havoced)"] = true
	}
	r := vc.sc.Fresh(fr.prefix+"decerr", "Val")
	vc.sc.Assume(st.reach, And(Or(Eq(r, "nilval"), sx("vnn", r)), vc.notModuleErr(r)))
	return []Term{r}
}

// decodeIntoJSON: encoding/json additionally guarantees that a successful decode of a document
// other than the literal null leaves a pointer (or generic) target non-nil.
func (fr *Frame) decodeIntoJSON(st *State, call ssa.CallInstruction, argIdx int, a []Term, name string, data Term) []Term {
	vc := fr.vc
	res := fr.decodeInto(st, call, argIdx, a, name)
	var ptrTerm Term
	var ptrT types.Type
	argv := call.Common().Args[argIdx]
	if mi, ok := argv.(*ssa.MakeInterface); ok {
		ptrTerm, ptrT = fr.val(mi.X), mi.X.Type()
	} else if bi, ok := vc.boxes[a[argIdx]]; ok {
		ptrTerm, ptrT = bi.inner, bi.t
	}
	if et, ok := typesPointerElem(ptrT); ok {
		vc.sc.DeclFun("trimSpace", []string{"String"}, "String")
		notNull := Not(Eq(sx("trimSpace", sx("bstr", data)), StrLit("null")))
		var valid Term
		switch {
		case isTypeParam(et):
			v := vc.loadT(st, ptrTerm, et)
			valid = And(Not(Eq(v, "nilval")), sx("vnn", v))
		case vc.sortOf(et) == "Ref":
			if _, isPtr := types.Unalias(et).Underlying().(*types.Pointer); isPtr {
				valid = Not(Eq(vc.loadT(st, ptrTerm, et), "nilref"))
			}
		}
		if valid == "" && vc.sortOf(et) == "Val" {
			valid = "true"
		}
		if valid != "" {
			vc.Assumed["encoding/json.Unmarshal: a successful decode of a document other than the literal null leaves a pointer target non-nil"] = true
			vc.sc.Assume(st.reach, Implies(And(Eq(res[0], "nilval"), notNull), valid))
		}
	}
	if ptrT == nil {
		// target boxed in an interface of unknown dynamic type: state the guarantee abstractly
		vc.sc.DeclFun("trimSpace", []string{"String"}, "String")
		notNull := Not(Eq(sx("trimSpace", sx("bstr", data)), StrLit("null")))
		vc.Assumed["encoding/json.Unmarshal: a successful decode of a document other than the literal null leaves a pointer target non-nil"] = true
		vc.sc.Assume(st.reach, Implies(And(Eq(res[0], "nilval"), notNull), vc.tgtValid(st, a[argIdx])))
	}
	return res
}

// tgtValid: "the decode target boxed in v holds a non-nil value" — the memory cell when the box
// is statically known, an abstract predicate over v's target facet otherwise.
func (vc *VC) tgtValid(st *State, v Term) Term {
	if bi, ok := vc.boxes[v]; ok {
		if et, ok := typesPointerElem(bi.t); ok {
			switch {
			case isTypeParam(et):
				x := vc.loadT(st, bi.inner, et)
				return And(Not(Eq(x, "nilval")), sx("vnn", x))
			case vc.sortOf(et) == "Ref":
				return Not(Eq(vc.loadT(st, bi.inner, et), "nilref"))
			}
			return "true"
		}
	}
	vc.sc.DeclFun("tgtValid", []string{"Val", "Int"}, "Bool")
	return sx("tgtValid", v, vc.osOfFacet(st, "$target", v))
}

// finalizeErrors emits the error-chain facts for plain errors and fmt.Errorf wraps, instantiated
// for the asErr functions and isErr targets that occur in this VC.
func (vc *VC) finalizeErrors() {
	// asErr functions declared so far
	var asFns []string
	for name := range vc.sc.declSet {
		if strings.HasPrefix(name, "asErr_") {
			asFns = append(asFns, name)
		}
	}
	sortStrings(asFns)
	zeroOfFn := func(fn string) Term {
		// result sort from declaration
		for _, d := range vc.sc.decls {
			if strings.HasPrefix(d, "(declare-fun "+fn+" ") {
				if strings.HasSuffix(d, " Ref)") {
					return "nilref"
				}
				if strings.HasSuffix(d, " Val)") {
					return "nilval"
				}
			}
		}
		return ""
	}
	for _, p := range vc.plainErrs {
		for _, f := range asFns {
			if z := zeroOfFn(f); z != "" {
				vc.sc.Axiom(Eq(sx(f, p), z))
			}
		}
	}
	for _, w := range vc.wrapFacts {
		for _, f := range asFns {
			z := zeroOfFn(f)
			if z == "" {
				continue
			}
			// the *fmt.wrapError itself is of no user type: asErr(r) = first non-zero among wraps
			t := z
			for i := len(w.wraps) - 1; i >= 0; i-- {
				t = Ite(Not(Eq(sx(f, w.wraps[i]), z)), sx(f, w.wraps[i]), t)
			}
			vc.sc.Axiom(Eq(sx(f, w.r), t))
		}
	}
	if vc.sc.declSet["isErr"] {
		for _, tgt := range sortedKeys(vc.isErrTargets) {
			for _, p := range vc.plainErrs {
				vc.sc.Axiom(Not(sx("isErr", p, tgt)))
			}
			for _, w := range vc.wrapFacts {
				var ds []Term
				for _, x := range w.wraps {
					ds = append(ds, And(Not(Eq(x, "nilval")), Eq(x, tgt)), sx("isErr", x, tgt))
				}
				vc.sc.Axiom(Eq(sx("isErr", w.r, tgt), Or(ds...)))
			}
			vc.sc.Axiom(Not(sx("isErr", "nilval", tgt)))
			// sentinels created by errors.New are plain
			for s := range vc.errSentinels {
				vc.sc.Axiom(Not(sx("isErr", s, tgt)))
			}
		}
	}
}

// assumeLinkedFresh: what a decoder links into its target (pointers, slices at depth 1 of the
// target object) is what was there before, nil, or freshly allocated.
func (vc *VC) assumeLinkedFresh(st, before *State, p Term, pt types.Type, clk Term) {
	var leaves []leafLoc
	vc.leafLocs(pt, func(e Term) Term { return e }, &leaves)
	if len(leaves) > 64 {
		return
	}
	vc.Assumed["decoders link only fresh allocations (or what was already there) into their target"] = true
	for _, lf := range leaves {
		if lf.sort != "Slice" && lf.sort != "Ref" {
			continue
		}
		ad := lf.addr(p)
		ov := sx("select", vc.getMem(before, lf.key, "(Array Ref "+lf.sort+")"), ad)
		nv := sx("select", vc.getMem(st, lf.key, "(Array Ref "+lf.sort+")"), ad)
		vc.noteAddr(lf.key, ad)
		if lf.sort == "Slice" {
			ov, nv = sx("s-ptr", ov), sx("s-ptr", nv)
		}
		vc.sc.Assume(st.reach, Or(Eq(nv, ov), Eq(nv, "nilref"), sx(">=", sx("birth", sx("root", nv)), clk)))
	}
}

// b64EncodingName: the package-level encoding a base64 method is invoked on (RawURLEncoding, ...),
// "unknown" when the receiver is not a direct load of such a variable.
func b64EncodingName(call ssa.CallInstruction) string {
	args := call.Common().Args
	if len(args) > 0 {
		if u, ok := args[0].(*ssa.UnOp); ok {
			if g, ok := u.X.(*ssa.Global); ok && g.Pkg != nil && g.Pkg.Pkg.Path() == "encoding/base64" {
				return g.Name()
			}
		}
		if g, ok := args[0].(*ssa.Global); ok {
			return g.Name()
		}
	}
	return "unknown"
}

package main

import (
	"fmt"
	"go/types"
	"sort"

	"golang.org/x/tools/go/ssa"
)

type boxInfo struct {
	inner Term
	t     types.Type
}

type wrapFact struct {
	r     Term
	wraps []Term
}

func sortStrings(s []string) { sort.Strings(s) }

func (vc *VC) reset() {
	vc.sc = NewScript()
	vc.structDecl = map[string]bool{}
	vc.structTypes = map[string]*types.Struct{}
	vc.tyIDs = map[string]int{}
	vc.tyTypes = map[int]types.Type{}
	vc.fldTags = map[string]int{}
	vc.memSorts = map[string]string{}
	vc.addrTerms = map[string]map[Term]*addrUse{}
	vc.quantKeys = map[string]bool{}
	vc.havocs = nil
	vc.closures = map[Term]*closureInfo{}
	vc.fnTerms = map[Term]*ssa.Function{}
	vc.occ = map[string]int{}
	vc.frameCtr = 0
	vc.inlinedInstrs = 0
	vc.entryKeys = map[string]string{}
	vc.contractErrs = map[Term]bool{}
	vc.usesModTy = false
	vc.Inlined = map[string]bool{}
	vc.Abstracted = map[string]bool{}
	vc.Assumed = map[string]bool{}
	vc.Errors = nil
	vc.nowTerms = nil
	vc.callSyms = map[string][]Term{}
	vc.callArgs = map[string][]cval{}
	vc.callCount = map[string]int{}
	vc.argCount = map[string]int{}
	vc.callReach = map[string]Term{}
	vc.curReach = "true"
	vc.callSymTypes = map[string][]CT{}
	vc.ifaceUsed = map[string]types.Type{}
	vc.frameAddrs = nil
	vc.frameRoots = nil
	vc.loopsBound = map[string]bool{}
	vc.loopEntry = map[string]*State{}
	vc.needRerun = false
	vc.errSentinels = map[string]bool{}
	vc.plainErrs = nil
	vc.wrapFacts = nil
	vc.isErrTargets = map[string]bool{}
	vc.boxes = map[Term]boxInfo{}
	vc.stableCache = map[*ssa.Global]Term{}
	vc.elemInfo = map[Term]elemInfo{}
	vc.slicePtr = map[Term]Term{}
	vc.prov = map[Term]Term{}
	vc.trusted = map[Term]bool{}
}

// wf records well-formedness facts of a value of type t existing at state st.
func (vc *VC) wf(st *State, v Term, t types.Type) {
	sort := vc.sortOf(t)
	vc.older(st, v, sort)
	if sort == "Val" && !isTypeParam(t) {
		vc.sc.Assume(st.reach, Or(Eq(v, "nilval"), sx("vnn", v)))
		if n, ok := types.Unalias(t).(*types.Named); ok && isModuleType(t) {
			if it, isI := n.Underlying().(*types.Interface); isI && it.NumMethods() > 0 {
				// a non-nil value of static interface type I implements I
				vc.sc.Assume(st.reach, Or(Eq(v, "nilval"), vc.implementsPred(v, t)))
			}
		}
	}
	if sort == "Slice" {
		// slice storage lives in array objects
		vc.sc.Assume(st.reach, Ite(Eq(sx("s-ptr", v), "nilref"), Eq(sx("s-len", v), "0"), Eq(sx("okind", sx("root", sx("s-ptr", v))), "1")))
	}
	if sort == "Slice" && isByteSlice(t) {
		vc.sc.Assume(st.reach, Eq(sx("s-len", v), sx("str.len", sx("bstr", v))))
	}
}

// Generate builds the verification script of the root function.
func (vc *VC) Generate() {
	if vc.loopMod == nil {
		vc.loopMod = map[string]map[string]string{}
	}
	if vc.facetNames == nil {
		vc.facetNames = map[string]bool{"$target": true}
	}
	for pass := 0; pass < 4; pass++ {
		vc.reset()
		vc.generateOnce()
		if !vc.needRerun {
			break
		}
	}
}

func (vc *VC) generateOnce() {
	fn := vc.root
	fr := vc.newFrame(fn, nil)
	st := &State{reach: "true", mem: map[string]Term{}, clk: "0"}
	var params []Term
	for _, p := range fn.Params {
		name := "p_" + sanitize(p.Name())
		vc.sc.DeclConst(name, vc.sortOf(p.Type()))
		vc.wf(st, name, p.Type())
		vc.trusted[name] = true
		if et, ok := typesPointerElem(p.Type()); ok {
			if _, isStruct := structOf(et); isStruct {
				// pointer parameters denote struct objects (or fields of them), not slice elements
				vc.sc.Axiom(Or(Eq(name, "nilref"), Eq(sx("okind", sx("root", name)), "0")))
				vc.Assumed["pointer-to-struct parameters do not point into slice backing arrays"] = true
			}
		}
		params = append(params, name)
	}
	var fvs []Term
	for _, f := range fn.FreeVars {
		name := "fv_" + sanitize(f.Name())
		vc.sc.DeclConst(name, vc.sortOf(f.Type()))
		vc.wf(st, name, f.Type())
		vc.sc.Assume("true", Not(Eq(name, "nilref")))
		vc.trusted[name] = true
		fvs = append(fvs, name)
	}
	ct := vc.C.Funcs[vc.rootKey]
	if ct == nil && vc.opts.Safety {
		// default entry condition of a handler-like function: nothing has been written yet
		for i, p := range fn.Params {
			if isNamed(p.Type(), "net/http", "ResponseWriter") {
				if _, ok := vc.C.Ghosts["Resp_written"]; ok {
					m := vc.getMem(st, "G:Resp_written", "(Array Val Bool)")
					vc.sc.Assume("true", Not(sx("select", m, params[i])))
					if _, ok := vc.C.Ghosts["Resp_error"]; ok {
						me := vc.getMem(st, "G:Resp_error", "(Array Val Bool)")
						vc.sc.Assume("true", Not(sx("select", me, params[i])))
					}
					vc.Assumed["default entry condition: no response written yet on "+p.Name()] = true
				}
			}
		}
	}
	vc.entry = st.clone()
	vc.rootContract = ct
	var env *Env
	if ct != nil {
		env = vc.callEnv(fn, fn.Signature, ct, params, st, nil, "requires of "+ct.Key)
		for i, f := range fn.FreeVars {
			// a free variable is the address of the captured variable: the name denotes its value
			if et, ok := typesPointerElem(f.Type()); ok {
				env.names[f.Name()] = cval{vc.loadT(st, fvs[i], et), vc.ctOf(et)}
			}
		}
		for _, cl := range ct.Requires {
			vc.sc.Assume("true", env.boolTerm(cl.Expr))
		}
		for _, loc := range ct.Modifies {
			if loc.Op == "id" || (loc.Op == "index" && loc.X.Op == "id" && vc.C.Ghosts[loc.X.Name] != nil) {
				continue // ghost
			}
			if loc.Op == "call" && (loc.Name == "os" || loc.Name == "target") {
				continue
			}
			if loc.Op == "unary" && loc.Name == "*" {
				v := env.eval(loc.X)
				vc.frameRoots = append(vc.frameRoots, v.t)
				continue
			}
			if loc.Op == "call" && (loc.Name == "elems" || loc.Name == "deep") && len(loc.Args) == 1 {
				v := env.eval(loc.Args[0])
				if v.ct.Sort == "Slice" {
					vc.frameRoots = append(vc.frameRoots, vc.sptr(v.t))
				} else {
					vc.frameRoots = append(vc.frameRoots, v.t)
				}
				continue
			}
			if a, _, ok := env.addrOf(loc); ok {
				vc.frameAddrs = append(vc.frameAddrs, a)
			}
		}
		vc.reportEnvErrors(env)
	}
	out, res := fr.run(st, params, fvs)
	if out != nil && ct != nil && !ct.Trusted {
		penv := vc.callEnv(fn, fn.Signature, ct, params, out, vc.entry, "ensures of "+ct.Key)
		for i, f := range fn.FreeVars {
			if et, ok := typesPointerElem(f.Type()); ok {
				penv.names[f.Name()] = cval{vc.loadT(out, fvs[i], et), vc.ctOf(et)}
			}
		}
		vc.bindResults(penv, fn.Signature, res)
		for _, cl := range ct.Ensures {
			if cl.Defines {
				continue
			}
			g := penv.boolTerm(cl.Expr)
			ob := &Oblig{Name: vc.rootKey + "/post:" + cl.Label, Kind: "post", Label: cl.Label, Func: vc.rootKey, InFunc: vc.rootKey, Detail: cl.Src}
			vc.sc.Oblig(out.reach, g, ob)
		}
		vc.reportEnvErrors(penv)
		if vc.opts.Cover {
			// vacuity guard: the antecedent of every conditional postcondition is reachable at a return
			for _, cl := range ct.Ensures {
				if cl.Defines || cl.Expr.Op != "binary" || cl.Expr.Name != "==>" || cl.NoCover {
					continue
				}
				a := penv.boolTerm(cl.Expr.Args[0])
				ob := &Oblig{Name: vc.rootKey + "/cover:" + cl.Label, Kind: "cover", Label: cl.Label, Func: vc.rootKey, InFunc: vc.rootKey, Cover: true, Detail: "reachable: " + cl.Expr.Args[0].String()}
				vc.sc.Oblig(out.reach, a, ob)
			}
			penv.err = nil
		}
		vc.reportEnvErrors(penv)
	}
	if out != nil && vc.opts.Safety && ct == nil {
		// Go's (value, nil) / (zero, err) idiom, which call sites rely on, checked on the body
		sig := fn.Signature
		n := sig.Results().Len()
		if n >= 2 && isErrorType(sig.Results().At(n-1).Type()) {
			for i := 0; i < n-1; i++ {
				rt := sig.Results().At(i).Type()
				var g Term
				switch vc.sortOf(rt) {
				case "Ref":
					if _, isMap := types.Unalias(rt).Underlying().(*types.Map); isMap {
						continue
					}
					if pt, ok := typesPointerElem(rt); ok {
						if _, isBasic := types.Unalias(pt).Underlying().(*types.Basic); isBasic {
							continue // optional scalar (*uint, *string): nil is a value
						}
					}
					g = Not(Eq(res[i], "nilref"))
				case "Val":
					if isTypeParam(rt) {
						continue
					}
					g = And(Not(Eq(res[i], "nilval")), sx("vnn", res[i]))
				default:
					continue
				}
				if vc.trusted[res[i]] {
					continue
				}
				if p, ok := vc.prov[res[i]]; ok {
					g = Or(g, p)
				}
				ob := &Oblig{Name: fmt.Sprintf("%s/idiom:result%d-non-nil-when-err-nil", vc.rootKey, i), Kind: "idiom", Func: vc.rootKey, InFunc: vc.rootKey}
				vc.sc.Oblig(out.reach, Implies(Eq(res[n-1], "nilval"), g), ob)
			}
		}
	}
	if out != nil && vc.opts.Canary {
		ob := &Oblig{Name: vc.rootKey + "/canary:return-reachable", Kind: "canary", Func: vc.rootKey, InFunc: vc.rootKey, Cover: true}
		vc.sc.Oblig(out.reach, "true", ob)
	}
	vc.exit = out
	vc.exitResults = res
	vc.finalizeErrors()
	vc.finalizeEntryTrust()
	vc.finalizeFrames()
	vc.finalizeTypes()
	// unbound loop specs are binding errors
	for k, l := range vc.C.Loops {
		if l.Key == vc.rootKey && !vc.loopsBound[k] {
			vc.errorf("loop spec %s does not bind to a loop of %s", k, vc.rootKey)
		}
	}
}

package main

// Assumed model of encoding/json and bytes.Buffer for the claims codec (C12). Everything here is
// trusted base (listed in evidence through vc.Assumed):
//
//   jsonEnc(v)       what json.Encoder.Encode(v) appends to its writer (function of the value; the
//                    contracts compare encodings of one value within one call only)
//   jsonMarshal(v)   what json.Marshal(v) returns
//   jsonAny(doc)     the value json.Unmarshal(doc, &x) stores into an x of type any: its dynamic type
//                    is one of nil, bool, float64, string, []any, map[string]any
//   jsonStr(doc)     the value stored into a string target
//   docHas(doc, k) / docVal(doc, k)   member k of the JSON object doc and its generic decoding
//   Buf_content[w]   ghost content of the bytes.Buffer behind writer / reader w
//   Dec_rest         what the last successful Decoder.Decode left unread in its source (white space
//                    only: the newline Encoder.Encode appends may or may not have been consumed)
//
// Decoding an object into a non-nil map[string]any keeps the map and its entries and overwrites
// exactly the members present in the document (encoding/json documentation of Unmarshal); into a nil
// map a new map with exactly the document's members is allocated.

import (
	"fmt"
	"go/types"

	"golang.org/x/tools/go/ssa"
)

const bufKey = "G:Buf_content"
const bufSort = "(Array Val String)"

func (vc *VC) jsonDecls() {
	vc.sc.DeclFun("jsonEnc", []string{"Val"}, "String")
	vc.sc.DeclFun("jsonMarshal", []string{"Val"}, "String")
	vc.sc.DeclFun("jsonAny", []string{"String"}, "Val")
	vc.sc.DeclFun("jsonStr", []string{"String"}, "String")
	vc.sc.DeclFun("docHas", []string{"String", "String"}, "Bool")
	vc.sc.DeclFun("docVal", []string{"String", "String"}, "Val")
	vc.sc.DeclFun("jsonSpace", []string{"String"}, "Bool")
	vc.sc.DeclFun("encW", []string{"Ref"}, "Val")
	vc.sc.DeclFun("decR", []string{"Ref"}, "Val")
}

func (vc *VC) extErr(fr *Frame, st *State, name string) Term {
	e := vc.sc.Fresh(fr.prefix+name, "Val")
	vc.sc.Assume(st.reach, And(Or(Eq(e, "nilval"), sx("vnn", e)), vc.notModuleErr(e)))
	return e
}

func (vc *VC) setBuf(st *State, w, content Term) {
	cur := vc.getMem(st, bufKey, bufSort)
	nm := vc.newMemVersion(bufKey)
	vc.sc.Def(Eq(nm, sx("store", cur, w, content)))
	st.mem[bufKey] = nm
}

// decodeTarget: (pointer term, pointee type) of a decode target handed over as `any`.
func (fr *Frame) decodeTarget(call ssa.CallInstruction, argIdx int, a []Term) (Term, types.Type) {
	argv := call.Common().Args[argIdx]
	if mi, ok := argv.(*ssa.MakeInterface); ok {
		if et, ok := typesPointerElem(mi.X.Type()); ok {
			return fr.val(mi.X), et
		}
	} else if bi, ok := fr.vc.boxes[a[argIdx]]; ok {
		if et, ok := typesPointerElem(bi.t); ok {
			return bi.inner, et
		}
	}
	return "", nil
}

func isStringAnyMap(t types.Type) (*types.Map, bool) {
	mt, ok := types.Unalias(t).Underlying().(*types.Map)
	if !ok {
		return nil, false
	}
	if b, ok := types.Unalias(mt.Key()).Underlying().(*types.Basic); !ok || b.Kind() != types.String {
		return nil, false
	}
	if it, ok := types.Unalias(mt.Elem()).Underlying().(*types.Interface); !ok || it.NumMethods() != 0 {
		return nil, false
	}
	return mt, true
}

// decodeObjectIntoMap models a JSON decode of document doc into the map[string]any variable at p.
func (fr *Frame) decodeObjectIntoMap(st *State, p Term, et types.Type, mt *types.Map, doc, err Term) {
	vc := fr.vc
	vc.Assumed["encoding/json: decoding into a map[string]any keeps a non-nil map and its entries and overwrites exactly the members of the document (docHas/docVal); a nil map is replaced by a new one"] = true
	oldp := vc.loadT(st, p, et)
	kv, kin := mapKeys(mt)
	vsort, isort := "(Array String Val)", "(Array String Bool)"
	oldv := vc.rawLoadSort(st, kv, vsort, oldp)
	oldin := vc.rawLoadSort(st, kin, isort, oldp)
	fresh := vc.alloc(st, fr.prefix+"jsonmap")
	np := vc.sc.Fresh(fr.prefix+"decmap", "Ref")
	ok := Eq(err, "nilval")
	vc.sc.Assume(st.reach, And(Implies(ok, Eq(np, Ite(Eq(oldp, "nilref"), fresh, oldp))), Or(Eq(np, oldp), Eq(np, fresh))))
	nv := vc.sc.Fresh(fr.prefix+"decrowv", vsort)
	nin := vc.sc.Fresh(fr.prefix+"decrowin", isort)
	had := func(k Term) Term { return And(Not(Eq(oldp, "nilref")), sx("select", oldin, k)) }
	vc.sc.Assume(st.reach, Implies(ok, fmt.Sprintf("(forall ((?jk String)) (! (and (= (select %s ?jk) (or (docHas %s ?jk) %s)) (= (select %s ?jk) (ite (docHas %s ?jk) (docVal %s ?jk) (select %s ?jk)))) :pattern ((select %s ?jk)) :pattern ((select %s ?jk))))",
		nin, doc, had("?jk"), nv, doc, doc, oldv, nin, nv)))
	vc.storeT(st, p, et, np)
	vc.rawStoreSort(st, kv, vsort, np, nv)
	vc.rawStoreSort(st, kin, isort, np, nin)
}

// jsonTargetFacts: what a successful json decode of doc leaves in the target (beyond the havoc).
func (fr *Frame) jsonTargetFacts(st *State, p Term, et types.Type, doc, err Term) {
	vc := fr.vc
	ok := Eq(err, "nilval")
	switch {
	case vc.sortOf(et) == "Val" && isEmptyInterface(et):
		vc.Assumed["encoding/json.Unmarshal into an any: the stored value is jsonAny(document), of dynamic type nil, bool, float64, string, []any or map[string]any"] = true
		v := vc.loadT(st, p, et)
		jv := sx("jsonAny", doc)
		var alts []Term
		alts = append(alts, Eq(jv, "nilval"))
		anyT := types.Universe.Lookup("any").Type()
		for _, tt := range []types.Type{types.Typ[types.Bool], types.Typ[types.Float64], types.Typ[types.String], types.NewSlice(anyT), types.NewMap(types.Typ[types.String], anyT)} {
			alts = append(alts, And(Not(Eq(jv, "nilval")), Eq(sx("typeOf", jv), vc.tyID(tt))))
		}
		vc.sc.Assume(st.reach, Implies(ok, And(Eq(v, jv), Or(alts...))))
		// elements of a decoded array are decoded values as well: non-nil members carry one of the
		// same dynamic types (only needed for nil-safety of element type switches)
	case vc.sortOf(et) == "String":
		if b, isBasic := types.Unalias(et).(*types.Basic); isBasic && b.Kind() == types.String {
			vc.Assumed["encoding/json.Unmarshal into a string: the stored value is jsonStr(document)"] = true
			vc.sc.Assume(st.reach, Implies(ok, Eq(vc.loadT(st, p, et), sx("jsonStr", doc))))
		}
	}
}

func isEmptyInterface(t types.Type) bool {
	it, ok := types.Unalias(t).Underlying().(*types.Interface)
	return ok && it.NumMethods() == 0 && !isTypeParam(t)
}

func registerJSONHandlers() {
	extHandlers["encoding/json.NewEncoder"] = func(fr *Frame, st *State, call ssa.CallInstruction, fn *ssa.Function, a []Term) ([]Term, bool) {
		vc := fr.vc
		vc.jsonDecls()
		e := vc.alloc(st, fr.prefix+"jsonenc")
		vc.sc.Def(Eq(sx("encW", e), a[0]))
		return []Term{e}, true
	}
	extHandlers["encoding/json.NewDecoder"] = func(fr *Frame, st *State, call ssa.CallInstruction, fn *ssa.Function, a []Term) ([]Term, bool) {
		vc := fr.vc
		vc.jsonDecls()
		d := vc.alloc(st, fr.prefix+"jsondec")
		vc.sc.Def(Eq(sx("decR", d), a[0]))
		return []Term{d}, true
	}
	extHandlers["encoding/json.Encoder.Encode"] = func(fr *Frame, st *State, call ssa.CallInstruction, fn *ssa.Function, a []Term) ([]Term, bool) {
		vc := fr.vc
		vc.jsonDecls()
		vc.Assumed["encoding/json.Encoder.Encode(v) appends jsonEnc(v) to its writer on success (ghost Buf_content); v is only read"] = true
		err := vc.extErr(fr, st, "encerr")
		w := sx("encW", a[0])
		cur := sx("select", vc.getMem(st, bufKey, bufSort), w)
		nc := vc.sc.Fresh(fr.prefix+"bufc", "String")
		vc.sc.Assume(st.reach, Implies(Eq(err, "nilval"), Eq(nc, sx("str.++", cur, sx("jsonEnc", a[1])))))
		vc.setBuf(st, w, nc)
		return []Term{err}, true
	}
	extHandlers["encoding/json.Decoder.Decode"] = func(fr *Frame, st *State, call ssa.CallInstruction, fn *ssa.Function, a []Term) ([]Term, bool) {
		vc := fr.vc
		vc.jsonDecls()
		r := sx("decR", a[0])
		doc := sx("select", vc.getMem(st, bufKey, bufSort), r)
		var res []Term
		if p, et := fr.decodeTarget(call, 1, a); et != nil {
			if mt, ok := isStringAnyMap(et); ok {
				err := vc.extErr(fr, st, "decerr")
				fr.decodeObjectIntoMap(st, p, et, mt, doc, err)
				res = []Term{err}
			}
		}
		if res == nil {
			res = fr.decodeInto(st, call, 1, a, "encoding/json.Decoder.Decode")
			if p, et := fr.decodeTarget(call, 1, a); et != nil {
				fr.jsonTargetFacts(st, p, et, doc, res[0])
			}
		}
		// the source: on success only white space is left unread
		vc.Assumed["encoding/json.Decoder.Decode consumes its source: after a success at most white space is left (ghost Dec_rest)"] = true
		rest := vc.sc.Fresh(fr.prefix+"decrest", "String")
		vc.sc.Assume(st.reach, Implies(Eq(res[0], "nilval"), sx("jsonSpace", rest)))
		vc.setBuf(st, r, rest)
		vc.memSorts["G:Dec_rest"] = "String"
		st.mem["G:Dec_rest"] = rest
		return res, true
	}
	extHandlers["bytes.Buffer.Bytes"] = func(fr *Frame, st *State, call ssa.CallInstruction, fn *ssa.Function, a []Term) ([]Term, bool) {
		vc := fr.vc
		vc.jsonDecls()
		vc.Assumed["bytes.Buffer.Bytes returns the unread content (ghost Buf_content)"] = true
		w := vc.box(a[0], call.Common().Args[0].Type())
		content := sx("select", vc.getMem(st, bufKey, bufSort), w)
		base := vc.alloc(st, fr.prefix+"bufbytes")
		r := vc.sc.Fresh(fr.prefix+"bytes", "Slice")
		vc.sc.Def(And(Eq(r, vc.mkSlice(base, sx("str.len", content), sx("str.len", content))), Eq(sx("bstr", r), content)))
		return []Term{r}, true
	}
	extHandlers["encoding/json.Marshal"] = func(fr *Frame, st *State, call ssa.CallInstruction, fn *ssa.Function, a []Term) ([]Term, bool) {
		vc := fr.vc
		vc.jsonDecls()
		vc.Assumed["encoding/json.Marshal(v) returns jsonMarshal(v) on success; v is only read"] = true
		err := vc.extErr(fr, st, "marshalerr")
		content := sx("jsonMarshal", a[0])
		base := vc.alloc(st, fr.prefix+"marshalled")
		r := vc.sc.Fresh(fr.prefix+"marshal", "Slice")
		ln := vc.sc.Fresh(fr.prefix+"marshallen", "Int")
		vc.sc.Def(And(Eq(r, Ite(Eq(err, "nilval"), vc.mkSlice(base, ln, ln), vc.mkSlice("nilref", "0", "0"))),
			Implies(Eq(err, "nilval"), And(Eq(sx("bstr", r), content), Eq(ln, sx("str.len", content)))), sx(">=", ln, "0")))
		return []Term{r, err}, true
	}
	extHandlers["encoding/json.Unmarshal"] = func(fr *Frame, st *State, call ssa.CallInstruction, fn *ssa.Function, a []Term) ([]Term, bool) {
		vc := fr.vc
		vc.jsonDecls()
		doc := sx("bstr", a[0])
		if p, et := fr.decodeTarget(call, 1, a); et != nil {
			if mt, ok := isStringAnyMap(et); ok {
				err := vc.extErr(fr, st, "decerr")
				fr.decodeObjectIntoMap(st, p, et, mt, doc, err)
				return []Term{err}, true
			}
		}
		res := fr.decodeIntoJSON(st, call, 1, a, "encoding/json.Unmarshal", a[0])
		if p, et := fr.decodeTarget(call, 1, a); et != nil {
			fr.jsonTargetFacts(st, p, et, doc, res[0])
		}
		return res, true
	}
}

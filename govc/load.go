package main

import (
	"sync"
	"fmt"
	"go/types"
	"os"
	"os/exec"
	"path/filepath"
	"sort"
	"strings"

	"golang.org/x/tools/go/packages"
	"golang.org/x/tools/go/ssa"
	"golang.org/x/tools/go/ssa/ssautil"
)

const modPath = "github.com/zitadel/oidc/v3"

// Program is the loaded /repo working tree: typed syntax + SSA of every package.
type Program struct {
	Repo  string
	Pkgs  []*packages.Package
	Prog  *ssa.Program
	SSA   map[string]*ssa.Package // by import path
	Funcs map[string]*ssa.Function
	// ContractSrc: text of all //@ lines found in zz_verif_contracts.go files, per package path
	ContractFiles map[string][]string
	globalInit    map[*ssa.Global]*globalInit
	unstable      map[*ssa.Global]bool
	mdCache       map[*ssa.Function][]bool
	nnCache       map[*ssa.Function][]bool
	mwCache       map[*ssa.Function][]bool
	mdMu          sync.Mutex
	facets        []ifaceFacet
	facetOnce     sync.Once
}

func repoDir() string {
	if d := os.Getenv("VERIF_REPO"); d != "" {
		return d
	}
	return "/repo"
}

// goForRepo returns a go binary able to type-check /repo (needs >= go1.24).
func goEnvForRepo() []string {
	env := os.Environ()
	// put the go1.26.8 toolchain first on PATH so that `go list` run by go/packages
	// understands //go:build go1.24 files in dependencies; GOTOOLCHAIN=local keeps it offline.
	root := "/opt/veriftools/go1.26.8"
	if p, err := exec.LookPath("go1.26.8"); err == nil {
		if out, err := exec.Command(p, "env", "GOROOT").Output(); err == nil {
			root = strings.TrimSpace(string(out))
		}
	}
	var out []string
	for _, e := range env {
		if strings.HasPrefix(e, "PATH=") {
			e = "PATH=" + filepath.Join(root, "bin") + ":" + strings.TrimPrefix(e, "PATH=")
		}
		if strings.HasPrefix(e, "GOFLAGS=") || strings.HasPrefix(e, "GOTOOLCHAIN=") || strings.HasPrefix(e, "GOPROXY=") || strings.HasPrefix(e, "GOWORK=") {
			continue
		}
		out = append(out, e)
	}
	out = append(out, "GOFLAGS=-mod=mod", "GOTOOLCHAIN=local", "GOPROXY=off", "GOWORK=off")
	// go/packages looks "go" up through this process's PATH
	os.Setenv("PATH", filepath.Join(root, "bin")+":"+os.Getenv("PATH"))
	return out
}

func LoadProgram(patterns ...string) (*Program, error) {
	repo := repoDir()
	cfg := &packages.Config{
		Mode:       packages.LoadSyntax,
		Dir:        repo,
		Env:        goEnvForRepo(),
		BuildFlags: []string{"-tags=verif"},
		Tests:      false,
	}
	if len(patterns) == 0 {
		patterns = []string{"./pkg/..."}
	}
	pkgs, err := packages.Load(cfg, patterns...)
	if err != nil {
		return nil, err
	}
	nerr := 0
	packages.Visit(pkgs, nil, func(p *packages.Package) {
		for _, e := range p.Errors {
			if strings.HasPrefix(p.PkgPath, modPath) {
				fmt.Fprintf(os.Stderr, "load error: %s: %v\n", p.PkgPath, e)
				nerr++
			}
		}
	})
	if nerr > 0 {
		return nil, fmt.Errorf("%d load errors in module packages", nerr)
	}
	prog, spkgs := ssautil.Packages(pkgs, ssa.GlobalDebug)
	P := &Program{Repo: repo, Pkgs: pkgs, Prog: prog, SSA: map[string]*ssa.Package{}, Funcs: map[string]*ssa.Function{}, ContractFiles: map[string][]string{}}
	for _, sp := range prog.AllPackages() {
		P.SSA[sp.Pkg.Path()] = sp
	}
	_ = spkgs
	// build bodies only for the module's own packages (dependencies stay declarations)
	for path, sp := range P.SSA {
		if strings.HasPrefix(path, modPath+"/pkg/") {
			sp.Build()
		}
	}
	for path, sp := range P.SSA {
		if !strings.HasPrefix(path, modPath+"/pkg/") {
			continue
		}
		for _, m := range sp.Members {
			switch m := m.(type) {
			case *ssa.Function:
				P.addFunc(m)
			case *ssa.Type:
				for _, t := range []types.Type{m.Type(), types.NewPointer(m.Type())} {
					ms := prog.MethodSets.MethodSet(t)
					for i := 0; i < ms.Len(); i++ {
						if f := prog.MethodValue(ms.At(i)); f != nil && f.Synthetic == "" {
							P.addFunc(f)
						}
					}
				}
			}
		}
	}
	theProgram = P
	// contract files
	for _, p := range pkgs {
		if !strings.HasPrefix(p.PkgPath, modPath) {
			continue
		}
		for _, f := range p.GoFiles {
			if filepath.Base(f) == "zz_verif_contracts.go" {
				b, err := os.ReadFile(f)
				if err != nil {
					return nil, err
				}
				P.ContractFiles[p.PkgPath] = append(P.ContractFiles[p.PkgPath], string(b))
			}
		}
	}
	return P, nil
}

// shortPkg maps an import path to the short qualifier used in contracts and obligation names.
func shortPkg(path string) string {
	if strings.HasPrefix(path, modPath+"/pkg/") {
		rest := strings.TrimPrefix(path, modPath+"/pkg/")
		switch rest {
		case "client/rp":
			return "rp"
		case "client/rs":
			return "rs"
		case "client/tokenexchange":
			return "tokenexchange"
		case "client/profile":
			return "profile"
		case "client/rp/cli":
			return "cli"
		case "http":
			return "httphelper"
		case "strings":
			return "strs"
		}
		return rest
	}
	if i := strings.LastIndex(path, "/"); i >= 0 {
		s := path[i+1:]
		if strings.HasPrefix(s, "v") && len(s) <= 3 { // go-jose/v4
			p2 := path[:i]
			if j := strings.LastIndex(p2, "/"); j >= 0 {
				return p2[j+1:]
			}
		}
		return s
	}
	return path
}

// funcKey: "op.CodeExchange", "op.(*LegacyServer).CodeExchange" -> "op.LegacyServer.CodeExchange",
// closures "op.Authorize$1".
func funcKey(fn *ssa.Function) string {
	if fn.Parent() != nil {
		// anonymous function: Parent$n
		return funcKey(fn.Parent()) + strings.TrimPrefix(fn.Name(), fn.Parent().Name())
	}
	pkg := ""
	if fn.Pkg != nil {
		pkg = shortPkg(fn.Pkg.Pkg.Path())
	} else if o := fn.Origin(); o != nil && o.Pkg != nil {
		pkg = shortPkg(o.Pkg.Pkg.Path())
	} else if fn.Object() != nil && fn.Object().Pkg() != nil {
		pkg = shortPkg(fn.Object().Pkg().Path())
	}
	name := fn.Name()
	if recv := fn.Signature.Recv(); recv != nil {
		t := recv.Type()
		if p, ok := t.(*types.Pointer); ok {
			t = p.Elem()
		}
		tn := ""
		switch tt := t.(type) {
		case *types.Named:
			tn = tt.Obj().Name()
			if tt.Obj().Pkg() != nil {
				pkg = shortPkg(tt.Obj().Pkg().Path())
			}
		case *types.Alias:
			tn = tt.Obj().Name()
		default:
			tn = t.String()
		}
		return pkg + "." + tn + "." + name
	}
	return pkg + "." + name
}

func isModuleFunc(fn *ssa.Function) bool {
	var p *types.Package
	if fn.Pkg != nil {
		p = fn.Pkg.Pkg
	} else if fn.Object() != nil {
		p = fn.Object().Pkg()
	} else if fn.Parent() != nil {
		return isModuleFunc(fn.Parent())
	}
	return p != nil && strings.HasPrefix(p.Path(), modPath+"/pkg/")
}

func (P *Program) addFunc(fn *ssa.Function) {
	if fn == nil {
		return
	}
	k := funcKey(fn)
	if _, ok := P.Funcs[k]; ok {
		return
	}
	P.Funcs[k] = fn
	for _, a := range fn.AnonFuncs {
		P.addFunc(a)
	}
}

func (P *Program) sortedFuncKeys() []string {
	var ks []string
	for k := range P.Funcs {
		ks = append(ks, k)
	}
	sort.Strings(ks)
	return ks
}

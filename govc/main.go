package main

import (
	"fmt"
	"os"
	"strings"
)

func usage() {
	fmt.Fprintln(os.Stderr, `usage:
  govc check <PROP> [--tier quick|thorough]
  govc dump <funcKey-substring>       print SSA of matching functions
  govc vc <funcKey> [--smt]           verify one function, print obligations
  govc replay <path>`)
	os.Exit(2)
}

func main() {
	if len(os.Args) < 2 {
		usage()
	}
	switch os.Args[1] {
	case "dump":
		P, err := LoadProgram()
		if err != nil {
			fmt.Fprintln(os.Stderr, err)
			os.Exit(2)
		}
		for _, k := range P.sortedFuncKeys() {
			if len(os.Args) > 2 && !strings.Contains(k, os.Args[2]) {
				continue
			}
			fn := P.Funcs[k]
			if !isModuleFunc(fn) || fn.Blocks == nil {
				continue
			}
			fmt.Printf("=== %s\n", k)
			fn.WriteTo(os.Stdout)
		}
	case "list":
		P, err := LoadProgram()
		if err != nil {
			fmt.Fprintln(os.Stderr, err)
			os.Exit(2)
		}
		for _, k := range P.sortedFuncKeys() {
			fn := P.Funcs[k]
			if isModuleFunc(fn) && fn.Blocks != nil {
				fmt.Println(k)
			}
		}
	case "vc":
		os.Exit(cmdVC(os.Args[2:]))
	case "sweep":
		os.Exit(cmdSweep(os.Args[2:]))
	case "check":
		os.Exit(cmdCheck(os.Args[2:]))
	case "replay":
		os.Exit(cmdReplay(os.Args[2:]))
	default:
		usage()
	}
}

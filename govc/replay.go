package main

import (
	"fmt"
	"os"
)

// replayModel: turning a model into a concrete failing run of the real code. Implemented for
// the canned known-finding replays (see /verif/replays); generic model-to-test translation is
// not available for this obligation -> the caller reports no-failing-input-found.
func replayModel(dir string, P *Program, ob *Oblig, payload map[string]any) bool {
	return false
}

func cmdReplay(args []string) int {
	if len(args) == 0 {
		fmt.Fprintln(os.Stderr, "usage: govc replay <path>")
		return 2
	}
	b, err := os.ReadFile(args[0])
	if err != nil {
		fmt.Fprintln(os.Stderr, err)
		return 2
	}
	os.Stdout.Write(b)
	fmt.Println()
	return 0
}

package main

import (
	"fmt"
	"sort"
	"strings"
)

// Terms are SMT-LIB2 s-expressions kept as strings.
type Term = string

func sx(op string, args ...Term) Term {
	if len(args) == 0 {
		return op
	}
	return "(" + op + " " + strings.Join(args, " ") + ")"
}

func And(ts ...Term) Term {
	var out []Term
	for _, t := range ts {
		if t == "true" || t == "" {
			continue
		}
		if t == "false" {
			return "false"
		}
		out = append(out, t)
	}
	switch len(out) {
	case 0:
		return "true"
	case 1:
		return out[0]
	}
	return sx("and", out...)
}

func Or(ts ...Term) Term {
	var out []Term
	for _, t := range ts {
		if t == "false" || t == "" {
			continue
		}
		if t == "true" {
			return "true"
		}
		out = append(out, t)
	}
	switch len(out) {
	case 0:
		return "false"
	case 1:
		return out[0]
	}
	return sx("or", out...)
}

func Not(t Term) Term {
	switch t {
	case "true":
		return "false"
	case "false":
		return "true"
	}
	if strings.HasPrefix(t, "(not ") && balanced(t[5:len(t)-1]) {
		return t[5 : len(t)-1]
	}
	return sx("not", t)
}

func balanced(s string) bool {
	d := 0
	inStr := false
	for i := 0; i < len(s); i++ {
		c := s[i]
		if inStr {
			if c == '"' {
				inStr = false
			}
			continue
		}
		switch c {
		case '"':
			inStr = true
		case '(':
			d++
		case ')':
			d--
			if d < 0 {
				return false
			}
		case ' ':
			if d == 0 {
				return false
			}
		}
	}
	return d == 0
}

func Implies(a, b Term) Term {
	if a == "true" {
		return b
	}
	if a == "false" || b == "true" {
		return "true"
	}
	return sx("=>", a, b)
}

func Eq(a, b Term) Term {
	if a == b {
		return "true"
	}
	return sx("=", a, b)
}

func Ite(c, a, b Term) Term {
	if c == "true" {
		return a
	}
	if c == "false" {
		return b
	}
	if a == b {
		return a
	}
	return sx("ite", c, a, b)
}

func IntLit(n int64) Term {
	if n < 0 {
		return fmt.Sprintf("(- %d)", -n)
	}
	return fmt.Sprintf("%d", n)
}

func BigIntLit(s string) Term {
	if strings.HasPrefix(s, "-") {
		return "(- " + s[1:] + ")"
	}
	return s
}

// StrLit encodes a Go string as an SMT-LIB 2.6 string literal.
func StrLit(s string) Term {
	var b strings.Builder
	b.WriteByte('"')
	for _, r := range []byte(s) {
		switch {
		case r == '"':
			b.WriteString(`""`)
		case r == '\\':
			b.WriteString(`\u{5c}`)
		case r >= 0x20 && r < 0x7f:
			b.WriteByte(r)
		default:
			fmt.Fprintf(&b, `\u{%x}`, r)
		}
	}
	b.WriteByte('"')
	return b.String()
}

// sanitize makes an SMT simple symbol out of arbitrary text.
func sanitize(s string) string {
	var b strings.Builder
	for _, r := range s {
		switch {
		case r >= 'a' && r <= 'z', r >= 'A' && r <= 'Z', r >= '0' && r <= '9', r == '_', r == '.':
			b.WriteRune(r)
		case r == '*':
			b.WriteString("P")
		case r == '[':
			b.WriteString("L")
		case r == ']':
			b.WriteString("R")
		case r == '/':
			b.WriteString("_")
		default:
			b.WriteString("_")
		}
	}
	return b.String()
}

// Script is the linear verification script of one function under verification:
// declarations, then an ordered list of items (definitions, guarded assumptions, obligations).
type Script struct {
	declSet  map[string]bool
	decls    []string // (declare-fun ...) / (declare-datatypes ...) in dependency order
	axioms   []string // global facts placed before all items
	axiomSet map[string]bool
	items    []Item
	fresh    map[string]int
}

type ItemKind int

const (
	ItemDef ItemKind = iota
	ItemAssume
	ItemOblig
)

type Item struct {
	Kind  ItemKind
	Term  Term   // def / assume: asserted term; oblig: goal
	Guard Term   // oblig: reach condition
	Ob    *Oblig // oblig
}

type Oblig struct {
	Name     string // stable name
	Kind     string // nil-deref, post, pre, inv-init, inv-preserve, frame, type-assert, index, ...
	Label    string
	Func     string // function key of the root function under verification
	InFunc   string // function key whose code raised it (differs when inlined)
	Pos      string
	Detail   string
	Index    int // position in script items
	Result   string // unsat / sat / unknown / timeout
	Solver   string
	Seconds  float64
	Model    string
	Known    bool
	SMTBytes int
	Cover    bool // cover query: expected SAT
	File     string
}

func NewScript() *Script {
	return &Script{declSet: map[string]bool{}, axiomSet: map[string]bool{}, fresh: map[string]int{}}
}

func (s *Script) Decl(name, decl string) {
	if s.declSet[name] {
		return
	}
	s.declSet[name] = true
	s.decls = append(s.decls, decl)
}

func (s *Script) DeclConst(name, sort string) Term {
	s.Decl(name, fmt.Sprintf("(declare-fun %s () %s)", name, sort))
	return name
}

func (s *Script) DeclFun(name string, args []string, ret string) {
	s.Decl(name, fmt.Sprintf("(declare-fun %s (%s) %s)", name, strings.Join(args, " "), ret))
}

func (s *Script) Fresh(base, sort string) Term {
	base = sanitize(base)
	n := s.fresh[base]
	s.fresh[base] = n + 1
	name := fmt.Sprintf("%s!%d", base, n)
	return s.DeclConst(name, sort)
}

func (s *Script) Axiom(t Term) {
	if t == "true" || s.axiomSet[t] {
		return
	}
	s.axiomSet[t] = true
	s.axioms = append(s.axioms, t)
}

func (s *Script) Def(t Term) {
	if t == "true" {
		return
	}
	s.items = append(s.items, Item{Kind: ItemDef, Term: t})
}

func (s *Script) Assume(guard, t Term) {
	if t == "true" {
		return
	}
	s.items = append(s.items, Item{Kind: ItemAssume, Term: Implies(guard, t)})
}

func (s *Script) Oblig(guard, goal Term, ob *Oblig) {
	ob.Index = len(s.items)
	s.items = append(s.items, Item{Kind: ItemOblig, Term: goal, Guard: guard, Ob: ob})
}

const prelude = `(set-option :produce-models true)
(set-logic ALL)
(declare-sort Ref 0)
(declare-sort Val 0)
(declare-datatypes ((Slice 0)) (((mk-slice (s-ptr Ref) (s-len Int) (s-cap Int)))))
(declare-fun nilref () Ref)
(declare-fun nilval () Val)
(declare-fun typeOf (Val) Int)
(declare-fun vnn (Val) Bool)
(declare-fun root (Ref) Ref)
(declare-fun okind (Ref) Int)
(declare-fun birth (Ref) Int)
(declare-fun ftag (Ref) Int)
(declare-fun fbase (Ref) Ref)
(declare-fun eidx (Ref) Int)
(declare-fun ebase (Ref) Ref)
(declare-fun elem (Ref Int) Ref)
(declare-fun bstr (Slice) String)
(assert (= (typeOf nilval) 0))
(assert (not (vnn nilval)))
(assert (= (root nilref) nilref))
(assert (= (birth nilref) (- 1)))
(define-fun nilslice () Slice (mk-slice nilref 0 0))
`

// Header renders prelude + declarations + global axioms.
func (s *Script) Header() string {
	var b strings.Builder
	b.WriteString(prelude)
	for _, d := range s.decls {
		b.WriteString(d)
		b.WriteByte('\n')
	}
	for _, a := range s.axioms {
		b.WriteString("(assert ")
		b.WriteString(a)
		b.WriteString(")\n")
	}
	return b.String()
}

// Standalone renders the query for the obligation at item index idx: everything before it is
// assumed (definitions, assumptions, and earlier obligations as "assert P; assume P").
func (s *Script) Standalone(idx int, timeoutMs int) string {
	return s.standalone(idx, false)
}

// StandaloneQF is Standalone without the quantified assertions (used for reachability canaries:
// a model of the quantifier-free part is what the solvers can actually produce).
func (s *Script) StandaloneQF(idx int) string { return s.standalone(idx, true) }

func hasQuant(t string) bool {
	return strings.Contains(t, "(forall ") || strings.Contains(t, "(exists ")
}

func (s *Script) standalone(idx int, qf bool) string {
	var b strings.Builder
	if qf {
		b.WriteString(prelude)
		for _, d := range s.decls {
			b.WriteString(d)
			b.WriteByte('\n')
		}
		for _, a := range s.axioms {
			if !hasQuant(a) {
				b.WriteString("(assert " + a + ")\n")
			}
		}
	} else {
		b.WriteString(s.Header())
	}
	for i := 0; i < idx; i++ {
		it := s.items[i]
		if qf && hasQuant(it.Term) {
			continue
		}
		switch it.Kind {
		case ItemDef, ItemAssume:
			b.WriteString("(assert " + it.Term + ")\n")
		case ItemOblig:
			// postconditions are independent claims about the same return state: they are not
			// assumed for one another (a failing clause must not mask the next one)
			if !it.Ob.Cover && it.Ob.Kind != "post" && !isKnownFailing(it.Ob) {
				b.WriteString("(assert " + Implies(it.Guard, it.Term) + ")\n")
			}
		}
	}
	it := s.items[idx]
	if it.Ob.Cover {
		b.WriteString("(assert " + And(it.Guard, it.Term) + ")\n")
	} else {
		b.WriteString("(assert " + And(it.Guard, Not(it.Term)) + ")\n")
	}
	b.WriteString("(check-sat)\n")
	return b.String()
}

// Incremental renders one script checking every obligation in order with push/pop.
func (s *Script) Incremental() string {
	var b strings.Builder
	b.WriteString(s.Header())
	for _, it := range s.items {
		switch it.Kind {
		case ItemDef, ItemAssume:
			b.WriteString("(assert " + it.Term + ")\n")
		case ItemOblig:
			b.WriteString("(push 1)\n")
			if it.Ob.Cover {
				b.WriteString("(assert " + And(it.Guard, it.Term) + ")\n")
			} else {
				b.WriteString("(assert " + And(it.Guard, Not(it.Term)) + ")\n")
			}
			b.WriteString("(check-sat)\n(pop 1)\n")
			if !it.Ob.Cover && it.Ob.Kind != "post" && !isKnownFailing(it.Ob) {
				b.WriteString("(assert " + Implies(it.Guard, it.Term) + ")\n")
			}
		}
	}
	return b.String()
}

func (s *Script) Obligs() []*Oblig {
	var out []*Oblig
	for _, it := range s.items {
		if it.Kind == ItemOblig {
			out = append(out, it.Ob)
		}
	}
	return out
}

func sortedKeys[V any](m map[string]V) []string {
	ks := make([]string, 0, len(m))
	for k := range m {
		ks = append(ks, k)
	}
	sort.Strings(ks)
	return ks
}

// isKnownFailing: the obligation is a recorded known finding (by name), or the initiation of a loop
// invariant clause recorded as such (also when the function is inlined into another root).
func isKnownFailing(ob *Oblig) bool {
	if knownFailing[ob.Name] {
		return true
	}
	return ob.Kind == "inv-init" && knownLoopInv[ob.InFunc+"|"+ob.Label]
}

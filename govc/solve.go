package main

import (
	"bytes"
	"context"
	"fmt"
	"os"
	"os/exec"
	"path/filepath"
	"strings"
	"sync"
	"time"
)

type solverSpec struct {
	name string
	cmd  func(file string, timeoutS int) []string
}

var solvers = []solverSpec{
	{"z3-new", func(f string, t int) []string { return []string{"z3-new", fmt.Sprintf("-T:%d", t), f} }},
	{"z3", func(f string, t int) []string { return []string{"z3", fmt.Sprintf("-T:%d", t), f} }},
	{"cvc5", func(f string, t int) []string {
		return []string{"cvc5", "--incremental", "--strings-exp", fmt.Sprintf("--tlimit=%d", t*1000), f}
	}},
}

type solveResult struct {
	result  string // unsat sat unknown timeout error
	solver  string
	seconds float64
	output  string
}

func runSolver(ctx context.Context, s solverSpec, file string, timeoutS int) solveResult {
	args := s.cmd(file, timeoutS)
	c, cancel := context.WithTimeout(ctx, time.Duration(timeoutS+2)*time.Second)
	defer cancel()
	cmd := exec.CommandContext(c, args[0], args[1:]...)
	var out bytes.Buffer
	cmd.Stdout = &out
	cmd.Stderr = &out
	t0 := time.Now()
	err := cmd.Run()
	dt := time.Since(t0).Seconds()
	txt := out.String()
	first := strings.TrimSpace(txt)
	if i := strings.IndexByte(first, '\n'); i >= 0 {
		first = strings.TrimSpace(first[:i])
	}
	r := solveResult{solver: s.name, seconds: dt, output: txt}
	switch first {
	case "unsat", "sat", "unknown":
		r.result = first
	case "timeout":
		r.result = "timeout"
	default:
		if c.Err() != nil || strings.Contains(first, "interrupted by timeout") {
			r.result = "timeout"
		} else if err != nil || strings.Contains(txt, "error") {
			r.result = "error"
		} else {
			r.result = "unknown"
		}
	}
	return r
}

// parseIncremental reads one result per (check-sat).
func parseIncremental(out string) []string {
	var rs []string
	for _, l := range strings.Split(out, "\n") {
		l = strings.TrimSpace(l)
		switch l {
		case "sat", "unsat", "unknown", "timeout":
			rs = append(rs, l)
		}
	}
	return rs
}

type Discharger struct {
	OutDir    string
	TimeoutS  int
	Thorough  bool
	sem       chan struct{}
	mu        sync.Mutex
	BySolver  map[string]int
	SolverSec map[string]float64
}

func NewDischarger(outDir string, timeoutS int, par int) *Discharger {
	os.MkdirAll(outDir, 0o755)
	return &Discharger{OutDir: outDir, TimeoutS: timeoutS, sem: make(chan struct{}, par), BySolver: map[string]int{}, SolverSec: map[string]float64{}}
}

func (d *Discharger) note(r solveResult) {
	d.mu.Lock()
	defer d.mu.Unlock()
	d.SolverSec[r.solver] += r.seconds
}

func (d *Discharger) credit(solver string) {
	d.mu.Lock()
	defer d.mu.Unlock()
	d.BySolver[solver]++
}

// Discharge decides every obligation of the script. Fast path: one incremental z3-new run for
// the whole function; obligations not proved there are re-checked standalone on all solvers.
func (d *Discharger) Discharge(vc *VC) {
	obs := vc.sc.Obligs()
	if len(obs) == 0 {
		return
	}
	base := filepath.Join(d.OutDir, sanitize(vc.rootKey))
	inc := base + ".inc.smt2"
	txt := vc.sc.Incremental()
	os.WriteFile(inc, []byte(txt), 0o644)
	d.sem <- struct{}{}
	perOb := d.TimeoutS
	total := 2*perOb + len(obs)/2 + 10
	// per-check timeout inside z3: use -t (soft per query ms)
	s := solverSpec{"z3-new", func(f string, t int) []string {
		return []string{"z3-new", fmt.Sprintf("-t:%d", perOb*1000), fmt.Sprintf("-T:%d", t), f}
	}}
	r := runSolver(context.Background(), s, inc, total)
	<-d.sem
	d.note(r)
	rs := parseIncremental(r.output)
	var pending []*Oblig
	for i, ob := range obs {
		ob.SMTBytes = len(txt)
		res := "unknown"
		if i < len(rs) {
			res = rs[i]
		}
		ok := res == "unsat"
		if ob.Cover {
			ok = res == "sat"
		}
		if d.Thorough && !ob.Cover {
			// thorough tier: every proof obligation is decided standalone by all three solvers
			// (agreement check); the incremental answer is only kept as a hint
			pending = append(pending, ob)
			continue
		}
		if ob.Cover && res == "unsat" {
			// vacuity: with all axioms (quantified ones included) no return satisfies the antecedent
			ob.Result = "unsat"
			ob.Solver = "z3-new(incremental, all axioms)"
			ob.Seconds = r.seconds / float64(len(obs))
			ob.File = inc
			continue
		}
		if ok {
			ob.Result = res
			ob.Solver = "z3-new(incremental)"
			ob.Seconds = r.seconds / float64(len(obs))
			d.credit("z3-new")
			continue
		}
		pending = append(pending, ob)
	}
	var wg sync.WaitGroup
	for _, ob := range pending {
		wg.Add(1)
		go func(ob *Oblig) {
			defer wg.Done()
			d.standalone(vc, ob, base)
		}(ob)
	}
	wg.Wait()
}

func (d *Discharger) standalone(vc *VC, ob *Oblig, base string) {
	if ob.Cover {
		// first the full query (all axioms) on the two solvers the incremental run did not use: a
		// refutation there is a vacuity failure (the path condition contradicts the quantified axioms)
		full := fmt.Sprintf("%s.%d.smt2", base, ob.Index)
		tl := 3
		if d.TimeoutS < tl {
			tl = d.TimeoutS
		}
		os.WriteFile(full, []byte(vc.sc.Standalone(ob.Index, tl*1000)), 0o644)
		chf := make(chan solveResult, 2)
		for _, s := range solvers[1:] {
			go func(s solverSpec) {
				d.sem <- struct{}{}
				defer func() { <-d.sem }()
				r := runSolver(context.Background(), s, full, tl)
				d.note(r)
				chf <- r
			}(s)
		}
		for range solvers[1:] {
			r := <-chf
			if r.result == "unsat" && ob.Result != "sat" {
				ob.Result = "unsat"
				ob.Solver = r.solver + "(all axioms)"
				ob.Seconds = r.seconds
				ob.File = full
			}
			if r.result == "sat" && ob.Result != "unsat" {
				ob.Result = "sat"
				ob.Solver = r.solver
				ob.Seconds = r.seconds
				ob.File = full
				d.credit(r.solver)
			}
		}
		if ob.Result == "unsat" || ob.Result == "sat" {
			return
		}
		// reachability canary: a model of the quantifier-free part is what solvers can produce
		qf := fmt.Sprintf("%s.%d.qf.smt2", base, ob.Index)
		os.WriteFile(qf, []byte(vc.sc.StandaloneQF(ob.Index)), 0o644)
		ctxq, cancelq := context.WithCancel(context.Background())
		chq := make(chan solveResult, len(solvers))
		for _, s := range solvers {
			go func(s solverSpec) {
				d.sem <- struct{}{}
				defer func() { <-d.sem }()
				if ctxq.Err() != nil {
					chq <- solveResult{solver: s.name, result: "cancelled"}
					return
				}
				r := runSolver(ctxq, s, qf, d.TimeoutS)
				d.note(r)
				chq <- r
			}(s)
		}
		found := false
		for range solvers {
			r := <-chq
			if r.result == "sat" && !found {
				found = true
				ob.Result = "sat"
				ob.Solver = r.solver + "(quantifier-free part)"
				ob.Seconds = r.seconds
				ob.File = qf
				d.credit(r.solver)
				cancelq()
			}
		}
		cancelq()
		if found {
			return
		}
	}
	file := fmt.Sprintf("%s.%d.smt2", base, ob.Index)
	q := vc.sc.Standalone(ob.Index, d.TimeoutS*1000)
	os.WriteFile(file, []byte(q+"(get-model)\n"), 0o644)
	ob.SMTBytes = len(q)
	ob.File = file
	type res struct{ r solveResult }
	ctx, cancel := context.WithCancel(context.Background())
	defer cancel()
	ch := make(chan solveResult, len(solvers))
	for _, s := range solvers {
		go func(s solverSpec) {
			d.sem <- struct{}{}
			defer func() { <-d.sem }()
			if ctx.Err() != nil {
				ch <- solveResult{solver: s.name, result: "cancelled"}
				return
			}
			r := runSolver(ctx, s, file, d.TimeoutS)
			d.note(r)
			ch <- r
		}(s)
	}
	want := "unsat"
	if ob.Cover {
		want = "sat"
	}
	var all []solveResult
	var satR *solveResult
	decided := false
	for range solvers {
		r := <-ch
		all = append(all, r)
		if r.result == want && !decided {
			decided = true
			ob.Result = r.result
			ob.Solver = r.solver
			ob.Seconds = r.seconds
			d.credit(r.solver)
			if !d.Thorough {
				cancel()
			}
		}
		if r.result == "sat" && !ob.Cover || r.result == "unsat" && ob.Cover {
			rr := r
			satR = &rr
		}
	}
	if decided && satR != nil && d.Thorough {
		ob.Result = "disagree"
		ob.Model = "solver disagreement: " + satR.solver + " says " + satR.result
		return
	}
	if decided {
		return
	}
	if satR != nil {
		ob.Result = satR.result
		ob.Solver = satR.solver
		ob.Seconds = satR.seconds
		ob.Model = satR.output
		return
	}
	if ob.Cover {
		// reachability canary: retry on the quantifier-free part
		qf := fmt.Sprintf("%s.%d.qf.smt2", base, ob.Index)
		os.WriteFile(qf, []byte(vc.sc.StandaloneQF(ob.Index)), 0o644)
		d.sem <- struct{}{}
		r := runSolver(context.Background(), solvers[0], qf, d.TimeoutS)
		<-d.sem
		d.note(r)
		if r.result == "sat" {
			ob.Result = "sat"
			ob.Solver = r.solver + "(quantifier-free part)"
			ob.Seconds = r.seconds
			d.credit(r.solver)
			return
		}
	}
	if !ob.Cover {
		// undecided with quantifiers: look for a candidate counterexample in the quantifier-free part
		qf := fmt.Sprintf("%s.%d.qf.smt2", base, ob.Index)
		os.WriteFile(qf, []byte(vc.sc.StandaloneQF(ob.Index)+"(get-model)\n"), 0o644)
		d.sem <- struct{}{}
		r := runSolver(context.Background(), solvers[0], qf, d.TimeoutS)
		<-d.sem
		d.note(r)
		if r.result == "sat" {
			ob.Model = "candidate model of the quantifier-free part (quantified facts dropped):\n" + r.output
		}
	}
	// undecided
	ob.Result = "unknown"
	var parts []string
	for _, r := range all {
		parts = append(parts, r.solver+":"+r.result)
		if r.result == "timeout" {
			ob.Result = "timeout"
		}
	}
	ob.Solver = strings.Join(parts, ",")
	for _, r := range all {
		if r.result == "error" {
			ob.Model += r.solver + " error: " + firstLines(r.output, 3) + "\n"
		}
	}
}

func firstLines(s string, n int) string {
	ls := strings.Split(s, "\n")
	if len(ls) > n {
		ls = ls[:n]
	}
	return strings.Join(ls, "\n")
}

package main

import (
	"fmt"
	"go/types"
	"strings"
)

const zeroTime = "(- 62135596800000000000)"

func isNamed(t types.Type, pkg, name string) bool {
	t = types.Unalias(t)
	n, ok := t.(*types.Named)
	if !ok {
		return false
	}
	o := n.Obj()
	return o.Name() == name && o.Pkg() != nil && o.Pkg().Path() == pkg
}

func isTimeTime(t types.Type) bool { return isNamed(t, "time", "Time") }

func qualifier(p *types.Package) string {
	if p == nil {
		return ""
	}
	return shortPkg(p.Path())
}

// typeKey is a canonical printable key of a Go type (short package qualifiers).
func typeKey(t types.Type) string {
	t = types.Unalias(t)
	if tp, ok := t.(*types.TypeParam); ok {
		return "tp." + tp.Obj().Name()
	}
	return types.TypeString(t, qualifier)
}

func symKey(t types.Type) string {
	k := typeKey(t)
	if len(k) > 60 {
		h := uint32(2166136261)
		for i := 0; i < len(k); i++ {
			h = (h ^ uint32(k[i])) * 16777619
		}
		k = fmt.Sprintf("%s_%08x", k[:40], h)
	}
	return sanitize(k)
}

// Sorts: "Int" "Bool" "String" "Real" "Ref" "Val" "Slice" or a struct datatype name.
func (vc *VC) sortOf(t types.Type) string {
	t = types.Unalias(t)
	if isTimeTime(t) {
		return "Int"
	}
	switch u := t.(type) {
	case *types.TypeParam:
		return "Val"
	case *types.Named:
		if _, ok := u.Underlying().(*types.Struct); ok {
			return vc.structSort(u, u.Underlying().(*types.Struct))
		}
		return vc.sortOf(u.Underlying())
	case *types.Basic:
		switch {
		case u.Info()&types.IsBoolean != 0:
			return "Bool"
		case u.Info()&types.IsInteger != 0:
			return "Int"
		case u.Info()&types.IsString != 0:
			return "String"
		case u.Info()&types.IsFloat != 0:
			return "Real"
		case u.Kind() == types.UnsafePointer:
			return "Ref"
		case u.Kind() == types.UntypedNil:
			return "Ref"
		}
		return "Int"
	case *types.Pointer, *types.Map, *types.Chan, *types.Signature:
		return "Ref"
	case *types.Interface:
		return "Val"
	case *types.Slice:
		return "Slice"
	case *types.Struct:
		return vc.structSort(t, u)
	case *types.Array:
		return vc.arraySort(u)
	case *types.Tuple:
		return "Tuple"
	}
	return "Int"
}

// arraySort: Go arrays as values are modelled as an SMT array Int -> elem.
func (vc *VC) arraySort(a *types.Array) string {
	return "(Array Int " + vc.sortOf(a.Elem()) + ")"
}

func (vc *VC) structSort(t types.Type, st *types.Struct) string {
	key := "S_" + symKey(t)
	if vc.structDecl[key] {
		return key
	}
	vc.structDecl[key] = true
	// declare field sorts first (recursion through non-pointer struct fields only)
	var fields []string
	for i := 0; i < st.NumFields(); i++ {
		fs := vc.sortOf(st.Field(i).Type())
		fields = append(fields, fmt.Sprintf("(%s_f%d %s)", key, i, fs))
	}
	if len(fields) == 0 {
		vc.sc.Decl(key, fmt.Sprintf("(declare-datatypes ((%s 0)) (((mk-%s))))", key, key))
	} else {
		vc.sc.Decl(key, fmt.Sprintf("(declare-datatypes ((%s 0)) (((mk-%s %s))))", key, key, strings.Join(fields, " ")))
	}
	vc.structTypes[key] = st
	return key
}

func structOf(t types.Type) (*types.Struct, bool) {
	t = types.Unalias(t)
	if isTimeTime(t) {
		return nil, false
	}
	st, ok := t.Underlying().(*types.Struct)
	return st, ok
}

// zero value term of a Go type.
func (vc *VC) zeroOf(t types.Type) Term {
	t = types.Unalias(t)
	if isTimeTime(t) {
		return zeroTime
	}
	if tp, ok := t.(*types.TypeParam); ok {
		name := "zero_tp_" + sanitize(tp.Obj().Name())
		vc.sc.DeclConst(name, "Val")
		vc.sc.Axiom(Not(sx("vnn", name)))
		return name
	}
	if st, ok := structOf(t); ok {
		key := vc.structSort(t, st)
		if st.NumFields() == 0 {
			return "mk-" + key
		}
		var fs []Term
		for i := 0; i < st.NumFields(); i++ {
			fs = append(fs, vc.zeroOf(st.Field(i).Type()))
		}
		return sx("mk-"+key, fs...)
	}
	if a, ok := t.Underlying().(*types.Array); ok {
		return sx("(as const "+vc.arraySort(a)+")", vc.zeroOf(a.Elem()))
	}
	switch vc.sortOf(t) {
	case "Int":
		return "0"
	case "Bool":
		return "false"
	case "String":
		return `""`
	case "Real":
		return "0.0"
	case "Ref":
		return "nilref"
	case "Val":
		return "nilval"
	case "Slice":
		return "nilslice"
	}
	return "0"
}

// type ids for dynamic types of interface values.
func (vc *VC) tyID(t types.Type) Term {
	t = types.Unalias(t)
	k := typeKey(t)
	if id, ok := vc.tyIDs[k]; ok {
		return fmt.Sprint(id)
	}
	id := len(vc.tyIDs) + 1
	vc.tyIDs[k] = id
	vc.tyTypes[id] = t
	return fmt.Sprint(id)
}

// box / unbox function symbols per Go type.
func (vc *VC) boxFn(t types.Type) string {
	name := "box_" + symKey(t)
	vc.sc.DeclFun(name, []string{vc.sortOf(t)}, "Val")
	return name
}

func (vc *VC) unboxFn(t types.Type) string {
	name := "unbox_" + symKey(t)
	vc.sc.DeclFun(name, []string{"Val"}, vc.sortOf(t))
	return name
}

func isPointerLike(t types.Type) bool {
	switch types.Unalias(t).Underlying().(type) {
	case *types.Pointer, *types.Map, *types.Chan, *types.Signature:
		return true
	}
	return false
}

func isInterfaceLike(t types.Type) bool {
	t = types.Unalias(t)
	if _, ok := t.(*types.TypeParam); ok {
		return true
	}
	_, ok := t.Underlying().(*types.Interface)
	return ok
}

func isTypeParam(t types.Type) bool {
	_, ok := types.Unalias(t).(*types.TypeParam)
	return ok
}

// box converts a term of static type t into a Val.
func (vc *VC) box(x Term, t types.Type) Term {
	if isInterfaceLike(t) {
		return x
	}
	if b, ok := types.Unalias(t).(*types.Basic); ok && b.Kind() == types.UntypedNil {
		return "nilval"
	}
	fn := vc.boxFn(t)
	bx := sx(fn, x)
	vc.boxes[bx] = boxInfo{inner: x, t: t}
	if strings.Contains(x, "?") {
		// boxing under a binder: state the box facts once, universally
		q := "?bx"
		bq := sx(fn, q)
		body := And(Eq(sx("typeOf", bq), vc.tyID(t)), Eq(sx(vc.unboxFn(t), bq), q))
		if isPointerLike(t) {
			body = And(body, Eq(sx("vnn", bq), Not(Eq(q, "nilref"))))
		} else {
			body = And(body, sx("vnn", bq))
		}
		vc.sc.Axiom(fmt.Sprintf("(forall ((?bx %s)) (! %s :pattern (%s)))", vc.sortOf(t), body, bq))
		return bx
	}
	vc.sc.Axiom(Eq(sx("typeOf", bx), vc.tyID(t)))
	vc.sc.Axiom(Eq(sx(vc.unboxFn(t), bx), x))
	if isPointerLike(t) {
		vc.sc.Axiom(Eq(sx("vnn", bx), Not(Eq(x, "nilref"))))
	} else {
		vc.sc.Axiom(sx("vnn", bx))
	}
	return bx
}

// coerce converts between the representation of type `from` and of type `to` (generic boundaries).
func (vc *VC) coerce(x Term, from, to types.Type) Term {
	fs, ts := vc.sortOf(from), vc.sortOf(to)
	if fs == ts {
		return x
	}
	if ts == "Val" {
		return vc.box(x, from)
	}
	if fs == "Val" {
		u := sx(vc.unboxFn(to), x)
		if isPointerLike(to) && isTypeParam(from) {
			// a generic value instantiated with pointer type `to`: valid <=> the pointer is non-nil
			vc.sc.Axiom(Eq(sx("vnn", x), Not(Eq(u, "nilref"))))
			vc.sc.Axiom(Implies(Not(Eq(u, "nilref")), Not(Eq(x, "nilval"))))
		}
		return u
	}
	return x
}

// memKey names the memory array holding locations of (non-struct) Go type t.
func (vc *VC) memKey(t types.Type) string {
	return "M:" + typeKey(t)
}

func (vc *VC) memSort(key string) string {
	return vc.memSorts[key]
}

// fieldAddr returns the address term of field i of the struct of type st located at p.
func (vc *VC) fieldAddr(p Term, structT types.Type, i int) Term {
	name := fmt.Sprintf("fld_%s_%d", symKey(structT), i)
	vc.sc.DeclFun(name, []string{"Ref"}, "Ref")
	a := sx(name, p)
	tag := vc.fieldTag(name)
	if !strings.Contains(p, "?") { // ground term: emit the inverse facts
		vc.sc.Axiom(Eq(sx("fbase", a), p))
		vc.sc.Axiom(Eq(sx("ftag", a), fmt.Sprint(tag)))
		vc.sc.Axiom(Eq(sx("root", a), sx("root", p)))
	}
	return a
}

func (vc *VC) fieldTag(name string) int {
	if id, ok := vc.fldTags[name]; ok {
		return id
	}
	id := len(vc.fldTags) + 1
	vc.fldTags[name] = id
	return id
}

// elemAddr: address of the idx-th element after pointer base. elem(elem(p,a),i) is collapsed to
// elem(p,a+i) so that reslicing keeps one canonical base.
func (vc *VC) elemAddr(base, idx Term) Term {
	if info, ok := vc.elemInfo[base]; ok {
		return vc.elemAddr(info.base, simplifyAdd(info.idx, idx))
	}
	a := sx("elem", base, idx)
	if _, ok := vc.elemInfo[a]; !ok {
		vc.elemInfo[a] = elemInfo{base: base, idx: idx}
	}
	if !strings.Contains(a, "?") {
		vc.sc.Axiom(Eq(sx("ebase", a), sx("ebase", base)))
		vc.sc.Axiom(Eq(sx("eidx", a), sx("+", sx("eidx", base), idx)))
		vc.sc.Axiom(Eq(sx("ftag", a), "0"))
		vc.sc.Axiom(Eq(sx("root", a), sx("root", base)))
		// element storage lives in array objects (no slicing of arrays embedded in structs)
		vc.sc.Axiom(Or(Eq(base, "nilref"), Eq(sx("okind", sx("root", base)), "1")))
	}
	return a
}

type elemInfo struct {
	base, idx Term
}

// sptr: the element-0 pointer of slice term s (resolved syntactically when s was built here).
func (vc *VC) sptr(s Term) Term {
	if p, ok := vc.slicePtr[s]; ok {
		return p
	}
	return sx("s-ptr", s)
}

func (vc *VC) mkSlice(ptr, ln, cp Term) Term {
	t := sx("mk-slice", ptr, ln, cp)
	vc.slicePtr[t] = ptr
	return t
}

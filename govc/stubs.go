package main

import (
	"flag"
	"fmt"
	"os"
	"strings"
)


func cmdVC(args []string) int {
	fs := flag.NewFlagSet("vc", flag.ExitOnError)
	safety := fs.Bool("safety", true, "safety obligations")
	timeout := fs.Int("timeout", 10, "seconds per obligation")
	show := fs.Bool("smt", false, "print script")
	inl := fs.Int("inline", 4, "max inline depth")
	var keys []string
	for len(args) > 0 && !strings.HasPrefix(args[0], "-") {
		keys = append(keys, args[0])
		args = args[1:]
	}
	fs.Parse(args)
	P, err := LoadProgram()
	if err != nil {
		fmt.Fprintln(os.Stderr, err)
		return 2
	}
	P.analyzeGlobals()
	C := LoadContracts(P, specDir())
	for _, e := range C.Errors {
		fmt.Println("CONTRACT ERROR:", e)
	}
	os.RemoveAll("/verif/out/vc")
	d := NewDischarger("/verif/out/vc", *timeout, 16)
	rc := 0
	for _, key := range keys {
		fn := P.Funcs[key]
		if fn == nil {
			fmt.Println("no such function:", key)
			rc = 2
			continue
		}
		vc := NewVC(P, C, fn, VCOpts{Safety: *safety, MaxInline: *inl, Canary: true})
		vc.Generate()
		if *show {
			fmt.Println(vc.sc.Incremental())
		}
		for _, e := range vc.Errors {
			fmt.Println("ERROR:", e)
		}
		d.Discharge(vc)
		for _, ob := range vc.sc.Obligs() {
			status := "ok  "
			if ob.Cover && ob.Result != "sat" || !ob.Cover && ob.Result != "unsat" {
				status = "FAIL"
				rc = 1
			}
			fmt.Printf("%s %-8s %-22s %6.2fs %s  %s\n", status, ob.Result, ob.Solver, ob.Seconds, ob.Name, ob.Pos)
			if status == "FAIL" {
				fmt.Printf("     query: %s\n", ob.File)
			}
		}
		fmt.Printf("inlined: %v\nabstracted: %v\nassumed: %v\n", sortedKeys(vc.Inlined), sortedKeys(vc.Abstracted), sortedKeys(vc.Assumed))
	}
	return rc
}

func specDir() string {
	if d := os.Getenv("VERIF_SPECS"); d != "" {
		return d
	}
	return "/verif/specs"
}

package main

import (
	"golang.org/x/tools/go/ssa"
	"time"
	"flag"
	"fmt"
	"os"
	"strings"
)


func cmdVC(args []string) int {
	fs := flag.NewFlagSet("vc", flag.ExitOnError)
	safety := fs.Bool("safety", true, "safety obligations")
	timeout := fs.Int("timeout", 10, "seconds per obligation")
	show := fs.Bool("smt", false, "print script")
	inl := fs.Int("inline", 4, "max inline depth")
	budget := fs.Int("budget", 0, "inline budget")
	var keys []string
	for len(args) > 0 && !strings.HasPrefix(args[0], "-") {
		keys = append(keys, args[0])
		args = args[1:]
	}
	fs.Parse(args)
	P, err := LoadProgram()
	if err != nil {
		fmt.Fprintln(os.Stderr, err)
		return 2
	}
	P.analyzeGlobals()
	initKnown(verifDir())
	C := LoadContracts(P, specDir())
	for _, e := range C.Errors {
		fmt.Println("CONTRACT ERROR:", e)
	}
	os.RemoveAll("/verif/out/vc")
	d := NewDischarger("/verif/out/vc", *timeout, 16)
	rc := 0
	for _, key := range keys {
		fn := P.Funcs[key]
		if fn == nil {
			fmt.Println("no such function:", key)
			rc = 2
			continue
		}
		vc := NewVC(P, C, fn, VCOpts{Safety: *safety, MaxInline: *inl, Canary: true, Cover: true, InlineBudget: *budget})
		vc.Generate()
		if *show {
			fmt.Println(vc.sc.Incremental())
		}
		for _, e := range vc.Errors {
			fmt.Println("ERROR:", e)
		}
		d.Discharge(vc)
		for _, ob := range vc.sc.Obligs() {
			status := "ok  "
			if ob.Cover && ob.Result != "sat" || !ob.Cover && ob.Result != "unsat" {
				status = "FAIL"
				rc = 1
			}
			fmt.Printf("%s %-8s %-22s %6.2fs %s  %s\n", status, ob.Result, ob.Solver, ob.Seconds, ob.Name, ob.Pos)
			if status == "FAIL" {
				fmt.Printf("     query: %s\n", ob.File)
			}
		}
		fmt.Printf("inlined: %v\nabstracted: %v\nassumed: %v\n", sortedKeys(vc.Inlined), sortedKeys(vc.Abstracted), sortedKeys(vc.Assumed))
	}
	return rc
}

func specDir() string {
	if d := os.Getenv("VERIF_SPECS"); d != "" {
		return d
	}
	return "/verif/specs"
}

// cmdSweep: safety sweep over every module function (development aid and C09 backbone).
func cmdSweep(args []string) int {
	fs := flag.NewFlagSet("sweep", flag.ExitOnError)
	timeout := fs.Int("timeout", 5, "seconds per obligation")
	filter := fs.String("f", "", "function key prefix filter (comma separated)")
	inl := fs.Int("inline", 2, "max inline depth")
	budget := fs.Int("budget", 300, "inlined instruction budget")
	fs.Parse(args)
	P, err := LoadProgram()
	if err != nil {
		fmt.Fprintln(os.Stderr, err)
		return 2
	}
	P.analyzeGlobals()
	C := LoadContracts(P, specDir())
	for _, e := range C.Errors {
		fmt.Println("CONTRACT ERROR:", e)
	}
	os.RemoveAll("/verif/out/sweep")
	d := NewDischarger("/verif/out/sweep", *timeout, 16)
	var keys []string
	for _, k := range P.sortedFuncKeys() {
		fn := P.Funcs[k]
		if !isModuleFunc(fn) || len(fn.Blocks) == 0 || strings.Contains(k, "mock.") || strings.HasSuffix(k, ".init") || isGeneratedFunc(P, fn) {
			continue
		}
		if *filter != "" {
			ok := false
			for _, f := range strings.Split(*filter, ",") {
				if strings.HasPrefix(k, f) {
					ok = true
				}
			}
			if !ok {
				continue
			}
		}
		keys = append(keys, k)
	}
	type res struct {
		key string
		vc  *VC
		pan any
	}
	out := make([]res, len(keys))
	sem := make(chan struct{}, 8)
	done := make(chan int, len(keys))
	for i, k := range keys {
		go func(i int, k string) {
			sem <- struct{}{}
			defer func() {
				if r := recover(); r != nil {
					out[i] = res{key: k, pan: r}
				}
				<-sem
				done <- i
			}()
			t0 := time.Now()
			vc := NewVC(P, C, P.Funcs[k], VCOpts{Safety: true, Canary: true, MaxInline: *inl, InlineBudget: *budget})
			vc.Generate()
			t1 := time.Now()
			d.Discharge(vc)
			if time.Since(t0) > 10*time.Second {
				fmt.Fprintf(os.Stderr, "slow: %s gen=%.1fs solve=%.1fs obligations=%d script=%dKB\n", k, t1.Sub(t0).Seconds(), time.Since(t1).Seconds(), len(vc.sc.Obligs()), len(vc.sc.Incremental())/1024)
			}
			out[i] = res{key: k, vc: vc}
		}(i, k)
	}
	for range keys {
		<-done
	}
	nOb, nFail, nPanic := 0, 0, 0
	for _, r := range out {
		if r.pan != nil {
			fmt.Printf("PANIC %s: %v\n", r.key, r.pan)
			nPanic++
			continue
		}
		for _, e := range r.vc.Errors {
			fmt.Printf("ERROR %s: %s\n", r.key, e)
		}
		for _, ob := range r.vc.sc.Obligs() {
			nOb++
			if ob.Cover && ob.Result != "sat" || !ob.Cover && ob.Result != "unsat" {
				nFail++
				fmt.Printf("FAIL %-8s %s  %s\n", ob.Result, ob.Name, ob.Pos)
			}
		}
	}
	fmt.Printf("functions=%d obligations=%d failed=%d panics=%d\n", len(keys), nOb, nFail, nPanic)
	return 0
}

// isGeneratedFunc: functions in generated files (enumer) are not swept.
func isGeneratedFunc(P *Program, fn *ssa.Function) bool {
	if !fn.Pos().IsValid() {
		return false
	}
	return strings.HasSuffix(P.Prog.Fset.Position(fn.Pos()).Filename, "_enumer.go")
}

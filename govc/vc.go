package main

import (
	"fmt"
	"go/constant"
	"go/token"
	"go/types"
	"sort"
	"strings"

	"golang.org/x/tools/go/ssa"
)

// State is the symbolic state at a program point.
type State struct {
	reach Term
	mem   map[string]Term // memory / ghost key -> current array (or scalar) term
	clk   Term
}

func (s *State) clone() *State {
	m := make(map[string]Term, len(s.mem))
	for k, v := range s.mem {
		m[k] = v
	}
	return &State{reach: s.reach, mem: m, clk: s.clk}
}

type havocEvent struct {
	key      string
	old, new Term
	pred     func(a Term) Term // modified-address predicate; nil = everything may change
	pos      int               // script position at which the havoc happened
}

type addrUse struct{ first, last int }

type closureInfo struct {
	fn       *ssa.Function
	bindings []Term
}

// VC is the verification unit for one root function.
type VC struct {
	P       *Program
	C       *Contracts
	root    *ssa.Function
	rootKey string
	sc      *Script

	structDecl  map[string]bool
	structTypes map[string]*types.Struct
	tyIDs       map[string]int
	tyTypes     map[int]types.Type
	fldTags     map[string]int
	memSorts    map[string]string
	addrTerms   map[string]map[Term]*addrUse
	quantKeys   map[string]bool
	callArgs    map[string][]cval
	callArgDyn  map[string][]cval
	callCount   map[string]int
	argCount    map[string]int
	callReach   map[string]Term
	curReach    Term
	curFrame    *Frame
	havocs      []havocEvent
	closures    map[Term]*closureInfo
	fnTerms     map[Term]*ssa.Function
	occ         map[string]int
	frameCtr    int
	entry       *State // entry state of the root function
	opts        VCOpts

	// reporting
	Inlined    map[string]bool
	Abstracted map[string]bool // instructions / calls abstracted (havoc)
	Assumed    map[string]bool // assumed specs used
	Errors     []string
	nowCtr     int
	nowTerms   []Term
	callSyms   map[string][]Term // call-result symbols by callee key
	callSymTypes map[string][]CT
	ifaceUsed    map[string]types.Type
	rootContract *FuncContract
	frameAddrs   []Term
	frameRoots   []Term
	loopsBound   map[string]bool
	loopEntry    map[string]*State
	loopMod      map[string]map[string]string // loop -> modified memory key -> array sort
	needRerun    bool
	errSentinels map[string]bool
	plainErrs    []Term
	wrapFacts    []wrapFact
	isErrTargets map[string]bool
	boxes        map[Term]boxInfo
	stableCache  map[*ssa.Global]Term
	freshAllocs  map[Term]bool // references allocated during the call under analysis
	callArgElems map[string]map[int][]cval // call key -> argument index -> elements of a variadic argument at call time
	elemInfo     map[Term]elemInfo
	slicePtr     map[Term]Term
	prov         map[Term]Term // value term -> untouched entry-state value it was loaded from
	inContract   int
	entryKeys    map[string]string
	contractErrs map[Term]bool
	usesModTy    bool
	inlinedInstrs int
	facetNames   map[string]bool // abstract-state facets (method names) used; persists across passes
	trusted      map[Term]bool // terms trusted to be non-nil (entry parameters, initialised globals, getter results)
	exit         *State
	exitResults  []Term
}

type VCOpts struct {
	Safety    bool // generate zero-annotation safety obligations
	MaxInline int
	Canary    bool
	Cover     bool // cover obligations for the antecedents of conditional postconditions
	InlineBudget int // stop inlining after this many inlined instructions (0 = unlimited)
	// when non-nil restricts which obligation kinds are emitted
}

type Frame struct {
	vc       *VC
	fn       *ssa.Function
	key      string
	prefix   string
	vals     map[ssa.Value]Term
	tuples   map[ssa.Value][]Term
	prov     map[Term]Term // value term -> "trusted entry value" term (see nil obligations)
	depth    int
	isRoot   bool
	contract *FuncContract
	rets     []retInfo
	defers   []*ssa.Defer
	rangeIn0 map[*ssa.Range]Term // key set of a ranged map when the range started
	deferSt  map[*ssa.Defer][]Term
	entrySt  *State
	params   []Term
	stack    []string
}

type retInfo struct {
	st      *State
	results []Term
}

func NewVC(P *Program, C *Contracts, fn *ssa.Function, opts VCOpts) *VC {
	if opts.MaxInline == 0 {
		opts.MaxInline = 4
	}
	vc := &VC{P: P, C: C, root: fn, rootKey: funcKey(fn), sc: NewScript(),
		structDecl: map[string]bool{}, structTypes: map[string]*types.Struct{}, tyIDs: map[string]int{}, tyTypes: map[int]types.Type{},
		fldTags: map[string]int{}, memSorts: map[string]string{}, addrTerms: map[string]map[Term]*addrUse{},
		closures: map[Term]*closureInfo{}, fnTerms: map[Term]*ssa.Function{}, occ: map[string]int{},
		Inlined: map[string]bool{}, Abstracted: map[string]bool{}, Assumed: map[string]bool{}, opts: opts,
		callSyms: map[string][]Term{}}
	return vc
}

func (vc *VC) errorf(format string, a ...any) {
	vc.Errors = append(vc.Errors, fmt.Sprintf(format, a...))
}

// ---------- memory ----------

func (vc *VC) memInit(key, sort string) Term {
	if _, ok := vc.memSorts[key]; !ok {
		vc.memSorts[key] = sort
	}
	name := sanitize(key) + "@0"
	name = "|" + name + "|"
	if !vc.sc.declSet[name] {
		vc.sc.DeclConst(name, vc.memSorts[key])
	}
	return name
}

func (vc *VC) getMem(st *State, key, sort string) Term {
	if m, ok := st.mem[key]; ok {
		return m
	}
	return vc.memInit(key, sort)
}

func (vc *VC) newMemVersion(key string) Term {
	n := vc.sc.fresh["mv:"+key]
	vc.sc.fresh["mv:"+key] = n + 1
	name := fmt.Sprintf("|%s@%d|", sanitize(key), n+1)
	vc.sc.DeclConst(name, vc.memSorts[key])
	return name
}

func (vc *VC) noteAddr(key string, a Term) {
	if strings.Contains(a, "?") {
		// address under a binder: this memory key needs quantified frame facts
		if vc.quantKeys == nil {
			vc.quantKeys = map[string]bool{}
		}
		vc.quantKeys[key] = true
		return
	}
	m := vc.addrTerms[key]
	if m == nil {
		m = map[Term]*addrUse{}
		vc.addrTerms[key] = m
	}
	pos := len(vc.sc.items)
	if vc.inContract > 0 {
		// addresses mentioned by contract clauses relate arbitrary states (old / post): keep all
		// frame instances for them
		if u, ok := m[a]; ok {
			u.first, u.last = 0, 1<<30
		} else {
			m[a] = &addrUse{first: 0, last: 1 << 30}
		}
		return
	}
	if u, ok := m[a]; ok {
		u.last = pos
	} else {
		m[a] = &addrUse{first: pos, last: pos}
	}
}

func (vc *VC) rawLoad(st *State, key, sort string, a Term) Term {
	m := vc.getMem(st, key, "(Array Ref "+sort+")")
	vc.noteAddr(key, a)
	v := sx("select", m, a)
	if strings.HasSuffix(m, "@0|") && !strings.Contains(a, "?") {
		// the entry-state memory holds only references to objects that existed at entry
		switch sort {
		case "Ref":
			vc.sc.Axiom(sx("<", sx("birth", sx("root", v)), "0"))
		case "Slice":
			vc.sc.Axiom(sx("<", sx("birth", sx("root", sx("s-ptr", v))), "0"))
		}
	}
	return v
}

func (vc *VC) rawStore(st *State, key, sort string, a, v Term) {
	m := vc.getMem(st, key, "(Array Ref "+sort+")")
	nm := vc.newMemVersion(key)
	vc.sc.Def(Eq(nm, sx("store", m, a, v)))
	st.mem[key] = nm
	vc.noteAddr(key, a)
}

// loadT loads a value of Go type t from address p.
func (vc *VC) loadT(st *State, p Term, t types.Type) Term {
	if s, ok := structOf(t); ok {
		key := vc.structSort(t, s)
		if s.NumFields() == 0 {
			return "mk-" + key
		}
		var fs []Term
		for i := 0; i < s.NumFields(); i++ {
			fs = append(fs, vc.loadT(st, vc.fieldAddr(p, t, i), s.Field(i).Type()))
		}
		return sx("mk-"+key, fs...)
	}
	return vc.rawLoad(st, vc.memKey(t), vc.sortOf(t), p)
}

func (vc *VC) storeT(st *State, p Term, t types.Type, v Term) {
	if s, ok := structOf(t); ok {
		key := vc.structSort(t, s)
		for i := 0; i < s.NumFields(); i++ {
			vc.storeT(st, vc.fieldAddr(p, t, i), s.Field(i).Type(), sx(fmt.Sprintf("%s_f%d", key, i), v))
		}
		return
	}
	vc.rawStore(st, vc.memKey(t), vc.sortOf(t), p, v)
}

// locKeys lists the memory keys making up a location of type t (struct fields flattened).
func (vc *VC) locKeys(t types.Type, out map[string]types.Type) {
	if s, ok := structOf(t); ok {
		for i := 0; i < s.NumFields(); i++ {
			vc.locKeys(s.Field(i).Type(), out)
		}
		return
	}
	if a, ok := types.Unalias(t).Underlying().(*types.Array); ok {
		vc.locKeys(a.Elem(), out)
		return
	}
	out[vc.memKey(t)] = t
}

// havoc replaces the memory of key by a fresh version; addresses for which pred is false keep their value.
func (vc *VC) havoc(st *State, key, arrSort string, pred func(a Term) Term) {
	old := vc.getMem(st, key, arrSort)
	nm := vc.newMemVersion(key)
	st.mem[key] = nm
	vc.havocs = append(vc.havocs, havocEvent{key: key, old: old, new: nm, pred: pred, pos: len(vc.sc.items)})
}

// havocObject havocs every location (by type) of the object of type t rooted at p (same root object).
func (vc *VC) havocPointee(st *State, p Term, t types.Type, deep bool, clkBefore Term) {
	keys := map[string]types.Type{}
	if deep {
		vc.reachKeys(t, keys, map[string]bool{})
	} else {
		vc.locKeys(t, keys)
	}
	for _, k := range sortedKeys(keys) {
		kt := keys[k]
		pp := p
		vc.havoc(st, k, "(Array Ref "+vc.sortOf(kt)+")", func(a Term) Term {
			c := Eq(sx("root", a), sx("root", pp))
			if deep {
				c = Or(c, sx(">=", sx("birth", sx("root", a)), clkBefore))
			}
			return c
		})
	}
}

// reachKeys: memory keys reachable by type from a location of type t (through pointers, slices).
func (vc *VC) reachKeys(t types.Type, out map[string]types.Type, seen map[string]bool) {
	t = types.Unalias(t)
	k := typeKey(t)
	if seen[k] {
		return
	}
	seen[k] = true
	if s, ok := structOf(t); ok {
		for i := 0; i < s.NumFields(); i++ {
			vc.reachKeys(s.Field(i).Type(), out, seen)
		}
		return
	}
	out[vc.memKey(t)] = t
	switch u := t.Underlying().(type) {
	case *types.Pointer:
		vc.reachKeys(u.Elem(), out, seen)
	case *types.Slice:
		vc.reachKeys(u.Elem(), out, seen)
	case *types.Array:
		vc.reachKeys(u.Elem(), out, seen)
	}
}

// finalizeFrames emits the ground frame instances for all havoc events.
func (vc *VC) finalizeFrames() {
	for _, h := range vc.havocs {
		if vc.quantKeys[h.key] && h.pred != nil {
			// quantified frame fact (the key is read at addresses under a binder)
			vc.sc.Axiom(fmt.Sprintf("(forall ((?fa Ref)) (! (=> (not %s) (= (select %s ?fa) (select %s ?fa))) :pattern ((select %s ?fa))))", h.pred("?fa"), h.new, h.old, h.new))
		}
		addrs := vc.addrTerms[h.key]
		var as []Term
		for a := range addrs {
			as = append(as, a)
		}
		sort.Strings(as)
		for _, a := range as {
			if h.pred == nil {
				continue
			}
			// an address only used before the havoc, or first seen after it (freshly allocated
			// or freshly loaded), does not need the frame instance
			if u := addrs[a]; u.last < h.pos || u.first > h.pos {
				continue
			}
			vc.sc.Axiom(Implies(Not(h.pred(a)), Eq(sx("select", h.new, a), sx("select", h.old, a))))
		}
	}
}

// ---------- allocation ----------

func (vc *VC) alloc(st *State, name string) Term {
	r := vc.sc.Fresh(name, "Ref")
	if vc.freshAllocs == nil {
		vc.freshAllocs = map[Term]bool{}
	}
	vc.freshAllocs[r] = true
	vc.sc.Def(And(Not(Eq(r, "nilref")), Eq(sx("root", r), r), Eq(sx("birth", r), st.clk), Eq(sx("ftag", r), "(- 1)"), Eq(sx("ebase", r), r), Eq(sx("eidx", r), "0")))
	nc := vc.sc.Fresh("clk", "Int")
	vc.sc.Def(Eq(nc, sx("+", st.clk, "1")))
	st.clk = nc
	return r
}

func (vc *VC) bumpClock(st *State) Term {
	before := st.clk
	nc := vc.sc.Fresh("clk", "Int")
	vc.sc.Def(sx(">=", nc, st.clk))
	st.clk = nc
	return before
}

// older asserts that a reference-carrying value existed before now.
func (vc *VC) older(st *State, v Term, sort string) {
	switch sort {
	case "Ref":
		vc.sc.Assume(st.reach, sx("<", sx("birth", sx("root", v)), st.clk))
	case "Slice":
		vc.sc.Assume(st.reach, And(sx("<", sx("birth", sx("root", vc.sptr(v))), st.clk),
			sx("<=", "0", sx("s-len", v)), sx("<=", sx("s-len", v), sx("s-cap", v)),
			Ite(Eq(vc.sptr(v), "nilref"), Eq(sx("s-len", v), "0"), Eq(sx("okind", sx("root", vc.sptr(v))), "1"))))
	}
}

// ---------- obligations ----------

func (vc *VC) obName(fr *Frame, kind, label, detail string) string {
	n := fr.rootKey() + "/" + kind
	if fr.key != fr.rootKey() {
		n = fr.rootKey() + "/" + kind + "[" + fr.key + "]"
	}
	if label != "" {
		n += ":" + label
	}
	if detail != "" {
		n += "@" + detail
	}
	vc.occ[n]++
	if c := vc.occ[n]; c > 1 {
		n += fmt.Sprintf("#%d", c)
	}
	return n
}

func (fr *Frame) rootKey() string { return fr.vc.rootKey }

func (vc *VC) oblig(fr *Frame, st *State, kind, label, detail string, goal Term, pos token.Pos) {
	if goal == "true" {
		return
	}
	ob := &Oblig{Name: vc.obName(fr, kind, label, detail), Kind: kind, Label: label, Func: vc.rootKey, InFunc: fr.key, Detail: detail}
	if pos.IsValid() {
		p := vc.P.Prog.Fset.Position(pos)
		ob.Pos = fmt.Sprintf("%s:%d", strings.TrimPrefix(p.Filename, vc.P.Repo+"/"), p.Line)
	}
	vc.sc.Oblig(st.reach, goal, ob)
}

// ---------- values ----------

func (fr *Frame) name(v ssa.Value) string {
	return fr.prefix + sanitize(v.Name())
}

// describe gives a register-name-free description of a value, for stable obligation names.
func describe(v ssa.Value, depth int) string {
	if depth > 4 {
		return "…"
	}
	switch x := v.(type) {
	case *ssa.Parameter:
		return x.Name()
	case *ssa.FreeVar:
		return x.Name()
	case *ssa.Global:
		return x.Name()
	case *ssa.Const:
		if x.Value == nil {
			return "nil"
		}
		return x.Value.ExactString()
	case *ssa.FieldAddr:
		return describe(x.X, depth+1) + "." + fieldName(x.X.Type(), x.Field)
	case *ssa.Field:
		return describe(x.X, depth+1) + "." + fieldNameV(x.X.Type(), x.Field)
	case *ssa.UnOp:
		if x.Op == token.MUL {
			d := describe(x.X, depth+1)
			if _, ok := x.X.(*ssa.FieldAddr); ok {
				return d
			}
			if _, ok := x.X.(*ssa.Alloc); ok {
				return d
			}
			if _, ok := x.X.(*ssa.Global); ok {
				return d
			}
			return "*" + d
		}
		return x.Op.String() + describe(x.X, depth+1)
	case *ssa.Alloc:
		if x.Comment != "" {
			return x.Comment
		}
		return "new(" + typeKey(x.Type().Underlying().(*types.Pointer).Elem()) + ")"
	case *ssa.Call:
		c := x.Common()
		if c.IsInvoke() {
			return describe(c.Value, depth+1) + "." + c.Method.Name() + "()"
		}
		if f := c.StaticCallee(); f != nil {
			return f.Name() + "()"
		}
		return describe(c.Value, depth+1) + "()"
	case *ssa.Extract:
		return describe(x.Tuple, depth+1) + fmt.Sprintf("#%d", x.Index)
	case *ssa.Phi:
		if x.Comment != "" {
			return x.Comment
		}
		return "phi"
	case *ssa.IndexAddr:
		return describe(x.X, depth+1) + "[" + describe(x.Index, depth+1) + "]"
	case *ssa.Index:
		return describe(x.X, depth+1) + "[" + describe(x.Index, depth+1) + "]"
	case *ssa.TypeAssert:
		return describe(x.X, depth+1) + ".(" + typeKey(x.AssertedType) + ")"
	case *ssa.MakeInterface:
		return describe(x.X, depth+1)
	case *ssa.ChangeInterface:
		return describe(x.X, depth+1)
	case *ssa.ChangeType:
		return describe(x.X, depth+1)
	case *ssa.Convert:
		return describe(x.X, depth+1)
	case *ssa.Lookup:
		return describe(x.X, depth+1) + "[" + describe(x.Index, depth+1) + "]"
	case *ssa.Slice:
		return describe(x.X, depth+1) + "[:]"
	case *ssa.Function:
		return x.Name()
	case *ssa.MakeClosure:
		return x.Fn.Name()
	case *ssa.BinOp:
		return describe(x.X, depth+1) + x.Op.String() + describe(x.Y, depth+1)
	}
	return typeKey(v.Type())
}

func fieldName(ptrT types.Type, i int) string {
	pt, ok := types.Unalias(ptrT).Underlying().(*types.Pointer)
	if !ok {
		return fmt.Sprintf("#%d", i)
	}
	return fieldNameV(pt.Elem(), i)
}

func fieldNameV(t types.Type, i int) string {
	st, ok := types.Unalias(t).Underlying().(*types.Struct)
	if !ok || i >= st.NumFields() {
		return fmt.Sprintf("#%d", i)
	}
	return st.Field(i).Name()
}

func (fr *Frame) constTerm(c *ssa.Const) Term {
	vc := fr.vc
	t := c.Type()
	if c.Value == nil {
		return vc.zeroOf(t)
	}
	switch c.Value.Kind() {
	case constant.Bool:
		if constant.BoolVal(c.Value) {
			return "true"
		}
		return "false"
	case constant.String:
		s := constant.StringVal(c.Value)
		if vc.sortOf(t) == "Slice" {
			// constant []byte(...) cannot occur as ssa.Const; defensive
			return "nilslice"
		}
		return StrLit(s)
	case constant.Int:
		if vc.sortOf(t) == "Real" {
			return BigIntLit(c.Value.ExactString()) + ".0"
		}
		return BigIntLit(c.Value.ExactString())
	case constant.Float:
		if vc.sortOf(t) == "Int" {
			if i, ok := constant.Int64Val(constant.ToInt(c.Value)); ok {
				return IntLit(i)
			}
		}
		f, _ := constant.Float64Val(c.Value)
		s := fmt.Sprintf("%f", f)
		if strings.HasPrefix(s, "-") {
			return "(- " + s[1:] + ")"
		}
		return s
	}
	return vc.zeroOf(t)
}

func (fr *Frame) val(v ssa.Value) Term {
	vc := fr.vc
	if t, ok := fr.vals[v]; ok {
		return t
	}
	switch x := v.(type) {
	case *ssa.Const:
		return fr.constTerm(x)
	case *ssa.Global:
		name := "g_" + sanitize(qualifier(x.Pkg.Pkg)+"."+x.Name())
		vc.sc.DeclConst(name, "Ref")
		vc.sc.Axiom(And(Not(Eq(name, "nilref")), Eq(sx("root", name), name), Eq(sx("birth", name), "(- 1)"), Eq(sx("ftag", name), "(- 1)")))
		return name
	case *ssa.Function:
		return vc.fnTerm(x)
	case *ssa.Builtin:
		return "nilref"
	}
	// value defined in a block not processed (unreachable) or not yet supported
	t := vc.sc.Fresh(fr.prefix+"undef_"+v.Name(), vc.sortOf(v.Type()))
	fr.vals[v] = t
	return t
}

func (vc *VC) fnTerm(f *ssa.Function) Term {
	if o := f.Origin(); o != nil {
		f = o
	}
	name := "fn_" + sanitize(funcKey(f))
	vc.sc.DeclConst(name, "Ref")
	vc.sc.Axiom(And(Not(Eq(name, "nilref")), Eq(sx("root", name), name), Eq(sx("birth", name), "(- 1)")))
	vc.fnTerms[name] = f
	return name
}

func (fr *Frame) define(v ssa.Value, t Term) Term {
	vc := fr.vc
	sort := vc.sortOf(v.Type())
	if sort == "Tuple" {
		return t
	}
	name := fr.name(v)
	if vc.sc.declSet[name] {
		// same SSA value translated twice (loops are cut, so this should not happen)
		name = name + fmt.Sprintf("_%d", len(vc.sc.decls))
	}
	vc.sc.DeclConst(name, sort)
	vc.sc.Def(Eq(name, t))
	fr.vals[v] = name
	// carry over closure / function identity
	if ci, ok := vc.closures[t]; ok {
		vc.closures[name] = ci
	}
	if f, ok := vc.fnTerms[t]; ok {
		vc.fnTerms[name] = f
	}
	if p, ok := fr.vc.prov[t]; ok {
		fr.vc.prov[name] = strings.Replace(p, " "+t+")", " "+name+")", 1)
	}
	if b, ok := vc.boxes[t]; ok {
		vc.boxes[name] = b
	}
	if vc.trusted[t] {
		vc.trusted[name] = true
	}
	if vc.contractErrs[t] {
		vc.contractErrs[name] = true
	}
	if ei, ok := vc.elemInfo[t]; ok {
		vc.elemInfo[name] = ei
	}
	if sp, ok := vc.slicePtr[t]; ok {
		vc.slicePtr[name] = sp
	}
	return name
}

func (fr *Frame) freshVal(v ssa.Value) Term {
	vc := fr.vc
	name := fr.name(v)
	if vc.sc.declSet[name] {
		name = name + fmt.Sprintf("_%d", len(vc.sc.decls))
	}
	vc.sc.DeclConst(name, vc.sortOf(v.Type()))
	fr.vals[v] = name
	return name
}

// entryTrusted: the nil policy. entryT_K(v) holds for every value stored in the entry-state
// memory of key K (configuration objects are assumed well-formed); a value loaded from memory is
// trusted exactly when it is such an entry value, wherever it was copied to.
func (vc *VC) entryTrusted(key, sort string, v, addr Term) Term {
	pred := "entryT_" + sanitize(key)
	vc.sc.DeclFun(pred, []string{sort}, "Bool")
	m0 := vc.memInit(key, "(Array Ref "+sort+")")
	if !strings.Contains(addr, "?") {
		// only cells of objects that existed at entry hold entry values: a cell allocated during the
		// call is zero-initialised through the same entry-memory symbol and must not make nil trusted
		if vc.inFreshObject(addr) {
			// no entry value lives in an object allocated by this call
		} else {
			vc.sc.Axiom(sx(pred, sx("select", m0, addr)))
		}
	}
	vc.entryKeys[key] = sort
	return sx(pred, v)
}

// finalizeEntryTrust: with quantified copy facts around (append), state the policy for all addresses.
func (vc *VC) finalizeEntryTrust() {
	quant := false
	for _, a := range vc.sc.axioms {
		if strings.HasPrefix(a, "(forall ((?b Ref) (?i Int))") {
			quant = true
		}
	}
	if !quant {
		return
	}
	for _, key := range sortedKeys(vc.entryKeys) {
		sort := vc.entryKeys[key]
		pred := "entryT_" + sanitize(key)
		m0 := vc.memInit(key, "(Array Ref "+sort+")")
		vc.sc.Axiom(fmt.Sprintf("(forall ((?a Ref)) (! (=> (< (birth (root ?a)) 0) (%s (select %s ?a))) :pattern ((select %s ?a))))", pred, m0, m0))
	}
}

// structResult: a pointer-to-struct value produced by a call denotes a struct object (or a field of
// one), not an element of a slice backing array (same assumption as for pointer parameters).
func (vc *VC) structResult(st *State, v Term, t types.Type) {
	if et, ok := typesPointerElem(t); ok {
		if _, isStruct := structOf(et); isStruct {
			vc.sc.Assume(st.reach, Or(Eq(v, "nilref"), Eq(sx("okind", sx("root", v)), "0")))
		}
	}
}

// inFreshObject: addr is (syntactically) a cell of an object allocated during this call - the
// allocation itself or a field / element path below it.
func (vc *VC) inFreshObject(addr Term) bool {
	t := addr
	for {
		if strings.HasPrefix(t, "(fld_") || strings.HasPrefix(t, "(elem ") {
			i := strings.Index(t, " ")
			t = t[i+1:]
			continue
		}
		break
	}
	if i := strings.IndexAny(t, " )"); i >= 0 {
		t = t[:i]
	}
	return vc.freshAllocs[t]
}

package op_test

// Canned replay for finding F9 (C03): a malformed registered redirect glob makes
// ValidateAuthReqRedirectURI fail with a redirect-ENABLED server_error, so the legacy Authorize
// handler (AuthRequestError) answers with a 302 to the URI that was never validated.
// Run from /repo with: go test -overlay <ov.json> -vet=off -run TestVerifReplayC03BadGlob ./pkg/op/

import (
	"log/slog"
	"net/http"
	"net/http/httptest"
	"strings"
	"testing"

	"github.com/golang/mock/gomock"
	"github.com/zitadel/oidc/v3/pkg/oidc"
	"github.com/zitadel/oidc/v3/pkg/op"
	"github.com/zitadel/oidc/v3/pkg/op/mock"
	"github.com/zitadel/schema"
)

func TestVerifReplayC03BadGlob(t *testing.T) {
	const evil = "https://attacker.example/cb"
	client := mock.NewHasRedirectGlobsWithConfig(t, []string{"http://**/\\"}, op.ApplicationTypeUserAgent, nil, true)
	err := op.ValidateAuthReqRedirectURI(client, evil, oidc.ResponseTypeCode)
	if err == nil {
		t.Fatal("unregistered URI accepted")
	}
	authorizer := mock.NewMockAuthorizer(gomock.NewController(t))
	authorizer.EXPECT().Logger().Return(slog.Default()).AnyTimes()
	authorizer.EXPECT().Encoder().Return(schema.NewEncoder()).AnyTimes()
	w := httptest.NewRecorder()
	r := httptest.NewRequest(http.MethodGet, "/authorize", nil)
	authReq := &oidc.AuthRequest{ClientID: "c", RedirectURI: evil, ResponseType: oidc.ResponseTypeCode, State: "s"}
	op.AuthRequestError(w, r, authReq, err, authorizer)
	if w.Code == http.StatusFound && strings.HasPrefix(w.Header().Get("Location"), evil) {
		t.Fatalf("VIOLATION C03: redirected (302) to the unvalidated URI: %s", w.Header().Get("Location"))
	}
}

package op_test

// Canned replay for findings F6 and F7 (C04), Server-interface router (RegisterLegacyServer):
//  F6: a code issued to client "web" is redeemed by another authenticated client ("api");
//  F7: a confidential client redeems a code whose auth request carried a PKCE challenge without
//      presenting any code_verifier.
// Run from /repo: go test -overlay <ov.json> -vet=off -run TestVerifReplayC04 ./pkg/op/

import (
	"context"
	"net/http"
	"net/http/httptest"
	"net/url"
	"strings"
	"testing"

	"github.com/zitadel/oidc/v3/pkg/oidc"
	"github.com/zitadel/oidc/v3/pkg/op"
)

func verifC04Exchange(t *testing.T, code, clientID, verifier string, challenge bool) int {
	t.Helper()
	server := op.RegisterLegacyServer(op.NewLegacyServer(testProvider, *op.DefaultEndpoints), op.AuthorizeCallbackHandler(testProvider))
	storage := testProvider.Storage().(routesTestStorage)
	ctx := op.ContextWithIssuer(context.Background(), testIssuer)
	ar := &oidc.AuthRequest{ClientID: "web", RedirectURI: "https://example.com", Scopes: oidc.SpaceDelimitedArray{oidc.ScopeOpenID}, ResponseType: oidc.ResponseTypeCode}
	if challenge {
		ar.CodeChallenge = oidc.NewSHACodeChallenge("the-real-verifier-the-real-verifier-1234567")
		ar.CodeChallengeMethod = oidc.CodeChallengeMethodS256
	}
	authReq, err := storage.CreateAuthRequest(ctx, ar, "id1")
	if err != nil {
		t.Fatal(err)
	}
	storage.AuthRequestDone(authReq.GetID())
	storage.SaveAuthCode(ctx, authReq.GetID(), code)
	form := url.Values{"grant_type": {"authorization_code"}, "code": {code}, "redirect_uri": {"https://example.com"}}
	if verifier != "" {
		form.Set("code_verifier", verifier)
	}
	req := httptest.NewRequest(http.MethodPost, testProvider.TokenEndpoint().Relative(), strings.NewReader(form.Encode()))
	req.Header.Set("Content-Type", "application/x-www-form-urlencoded")
	req.SetBasicAuth(clientID, "secret")
	rec := httptest.NewRecorder()
	server.ServeHTTP(rec, req)
	return rec.Code
}

func TestVerifReplayC04OtherClientRedeemsCode(t *testing.T) {
	if code := verifC04Exchange(t, "verif-code-f6", "api", "", false); code == http.StatusOK {
		t.Fatalf("VIOLATION C04 (F6): client \"api\" redeemed a code issued to client \"web\" (status %d)", code)
	}
}

func TestVerifReplayC04ChallengeWithoutVerifier(t *testing.T) {
	if code := verifC04Exchange(t, "verif-code-f7", "web", "", true); code == http.StatusOK {
		t.Fatalf("VIOLATION C04 (F7): code with PKCE challenge redeemed without code_verifier (status %d)", code)
	}
}

package op_test

// Canned replay for finding F8 (C05), legacy Provider router: a client that is not registered for
// the token-exchange grant (example client "device": device_code only) obtains tokens through
// grant_type=urn:ietf:params:oauth:grant-type:token-exchange.
// Run from /repo: go test -overlay <ov.json> -vet=off -run TestVerifReplayC05 ./pkg/op/

import (
	"context"
	"net/http"
	"net/http/httptest"
	"net/url"
	"testing"

	"github.com/zitadel/oidc/v3/pkg/oidc"
	"github.com/zitadel/oidc/v3/pkg/op"
)

func TestVerifReplayC05TokenExchangeUnregisteredGrant(t *testing.T) {
	provider := newTestProvider(testConfig)
	storage := provider.Storage().(routesTestStorage)
	ctx := op.ContextWithIssuer(context.Background(), testIssuer)
	web, err := storage.GetClientByClientID(ctx, "web")
	if err != nil {
		t.Fatal(err)
	}
	authReq, err := storage.CreateAuthRequest(ctx, &oidc.AuthRequest{ClientID: "web", RedirectURI: "https://example.com",
		Scopes: oidc.SpaceDelimitedArray{oidc.ScopeOpenID}, ResponseType: oidc.ResponseTypeCode}, "id1")
	if err != nil {
		t.Fatal(err)
	}
	storage.AuthRequestDone(authReq.GetID())
	subject, _, _, err := op.CreateAccessToken(ctx, authReq, op.AccessTokenTypeJWT, provider, web, "")
	if err != nil {
		t.Fatal(err)
	}
	dev, err := storage.GetClientByClientID(ctx, "device")
	if err != nil {
		t.Fatal(err)
	}
	if op.ValidateGrantType(dev, oidc.GrantTypeTokenExchange) {
		t.Skip("client device is registered for token exchange")
	}
	form := url.Values{"grant_type": {string(oidc.GrantTypeTokenExchange)}, "subject_token": {subject},
		"subject_token_type": {string(oidc.AccessTokenType)}, "scope": {"openid"}}
	req := httptest.NewRequest(http.MethodGet, testIssuer+"oauth/token?"+form.Encode(), nil)
	req.SetBasicAuth("device", "secret")
	rec := httptest.NewRecorder()
	provider.ServeHTTP(rec, req)
	if rec.Code == http.StatusOK {
		t.Fatalf("VIOLATION C05 (F8): client without the token-exchange grant obtained tokens: %s", rec.Body.String())
	}
}

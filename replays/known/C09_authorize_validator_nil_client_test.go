package op_test

// Canned replay for the finding op.Authorize/nil-deref[op.RedirectToLogin]@client.LoginURL() (C09):
// when the Authorizer implements the documented extension point op.AuthorizeValidator, Authorize
// replaces its own validation closure - the only place that assigns the local `client` - by
// ValidateAuthRequest, and then calls RedirectToLogin(req.GetID(), client, ...) with client == nil:
// client.LoginURL panics inside the request handler, after the auth request was stored.
// Run from /repo with: go test -overlay <ov.json> -vet=off -run TestVerifReplayC09AuthorizeValidator ./pkg/op/

import (
	"context"
	"net/http"
	"net/http/httptest"
	"testing"

	"github.com/golang/mock/gomock"
	"github.com/zitadel/oidc/v3/pkg/oidc"
	"github.com/zitadel/oidc/v3/pkg/op"
	"github.com/zitadel/oidc/v3/pkg/op/mock"
	"github.com/zitadel/schema"
)

type verifReplayValidatingAuthorizer struct{ *mock.MockAuthorizer }

func (verifReplayValidatingAuthorizer) ValidateAuthRequest(context.Context, *oidc.AuthRequest, op.Storage, *op.IDTokenHintVerifier) (string, error) {
	return "user1", nil
}

type verifReplayAuthReq struct{ op.AuthRequest }

func (verifReplayAuthReq) GetID() string { return "req1" }

func TestVerifReplayC09AuthorizeValidator(t *testing.T) {
	ctrl := gomock.NewController(t)
	storage := mock.NewMockStorage(ctrl)
	storage.EXPECT().GetClientByClientID(gomock.Any(), gomock.Any()).Return(mock.NewClientExpectAny(t, op.ApplicationTypeWeb), nil).AnyTimes()
	storage.EXPECT().CreateAuthRequest(gomock.Any(), gomock.Any(), gomock.Any()).Return(verifReplayAuthReq{}, nil).AnyTimes()
	ma := mock.NewMockAuthorizer(ctrl)
	dec := schema.NewDecoder()
	dec.IgnoreUnknownKeys(true)
	ma.EXPECT().Decoder().Return(dec).AnyTimes()
	ma.EXPECT().RequestObjectSupported().Return(false).AnyTimes()
	ma.EXPECT().Storage().Return(storage).AnyTimes()
	ma.EXPECT().IDTokenHintVerifier(gomock.Any()).Return(nil).AnyTimes()
	w := httptest.NewRecorder()
	r := httptest.NewRequest(http.MethodGet, "/authorize?client_id=web&redirect_uri=https%3A%2F%2Frp.example%2Fcb&response_type=code&scope=openid", nil)
	defer func() {
		if p := recover(); p != nil {
			t.Fatalf("VIOLATION C09: Authorize panicked with a custom AuthorizeValidator: %v", p)
		}
	}()
	op.Authorize(w, r, verifReplayValidatingAuthorizer{ma})
}

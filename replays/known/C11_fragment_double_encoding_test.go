package op_test

// Canned replay for finding F10 (C11): in fragment mode the already query-encoded parameters are
// assigned to url.URL.Fragment and escaped a second time by URL.String(): a user agent that decodes
// the fragment once receives state "a%2Bb%2F%3D%3F" instead of "a+b/=?".
// Run from /repo: go test -overlay <ov.json> -vet=off -run TestVerifReplayC11 ./pkg/op/

import (
	"net/url"
	"strings"
	"testing"

	"github.com/zitadel/oidc/v3/pkg/oidc"
	"github.com/zitadel/oidc/v3/pkg/op"
	"github.com/zitadel/schema"
)

func TestVerifReplayC11FragmentRoundTrip(t *testing.T) {
	const state = "a+b/=?&x y%"
	resp := struct {
		State string `schema:"state"`
	}{State: state}
	out, err := op.AuthResponseURL("https://example.com/cb?keep=1", oidc.ResponseTypeIDToken, "", &resp, schema.NewEncoder())
	if err != nil {
		t.Fatal(err)
	}
	i := strings.IndexByte(out, '#')
	if i < 0 {
		t.Fatalf("no fragment in %q", out)
	}
	vals, err := url.ParseQuery(out[i+1:]) // what a user agent does with location.hash
	if err != nil {
		t.Fatal(err)
	}
	if got := vals.Get("state"); got != state {
		t.Fatalf("VIOLATION C11 (F10): state %q arrives as %q (URL %s)", state, got, out)
	}
	if !strings.HasPrefix(out, "https://example.com/cb?keep=1#") {
		t.Fatalf("redirect URI not preserved: %s", out)
	}
}

package rp

// Canned replay for finding F11 (C13): keysFromRemote starts the shared JWKS download with the
// FIRST caller's context; when that caller is cancelled the download fails for every waiter.
// Run from /repo: go test -overlay <ov.json> -vet=off -run TestVerifReplayC13 ./pkg/client/rp/

import (
	"context"
	"net/http"
	"net/http/httptest"
	"testing"
	"time"
)

func TestVerifReplayC13CancelOfFirstCallerFailsSecond(t *testing.T) {
	srv := httptest.NewServer(http.HandlerFunc(func(w http.ResponseWriter, r *http.Request) {
		time.Sleep(300 * time.Millisecond)
		w.Header().Set("Content-Type", "application/json")
		w.Write([]byte(`{"keys":[]}`))
	}))
	defer srv.Close()
	ks := &remoteKeySet{jwksURL: srv.URL, httpClient: http.DefaultClient}
	ctxA, cancelA := context.WithCancel(context.Background())
	errB := make(chan error, 1)
	go func() { _, _ = ks.keysFromRemote(ctxA) }()
	time.Sleep(50 * time.Millisecond)
	go func() { _, err := ks.keysFromRemote(context.Background()); errB <- err }()
	time.Sleep(50 * time.Millisecond)
	cancelA()
	select {
	case err := <-errB:
		if err != nil {
			t.Fatalf("VIOLATION C13 (F11): caller B (live context) failed because caller A was cancelled: %v", err)
		}
	case <-time.After(3 * time.Second):
		t.Fatal("timeout")
	}
}

package op_test

// Canned replay for finding F14 (C15): requested_token_type=urn:ietf:params:oauth:token-type:jwt
// passes ValidateTokenExchangeRequest (the type is "supported") but cannot be issued;
// CreateTokenExchangeResponse built an error and dropped it: 200 with an empty access_token.
// Run from /repo: go test -overlay <ov.json> -vet=off -run TestVerifReplayC15 ./pkg/op/

import (
	"context"
	"encoding/json"
	"net/http"
	"net/http/httptest"
	"net/url"
	"testing"

	"github.com/zitadel/oidc/v3/pkg/oidc"
	"github.com/zitadel/oidc/v3/pkg/op"
)

func TestVerifReplayC15UnissuableRequestedType(t *testing.T) {
	provider := newTestProvider(testConfig)
	storage := provider.Storage().(routesTestStorage)
	ctx := op.ContextWithIssuer(context.Background(), testIssuer)
	web, err := storage.GetClientByClientID(ctx, "web")
	if err != nil {
		t.Fatal(err)
	}
	authReq, err := storage.CreateAuthRequest(ctx, &oidc.AuthRequest{ClientID: "web", RedirectURI: "https://example.com",
		Scopes: oidc.SpaceDelimitedArray{oidc.ScopeOpenID}, ResponseType: oidc.ResponseTypeCode}, "id1")
	if err != nil {
		t.Fatal(err)
	}
	storage.AuthRequestDone(authReq.GetID())
	subject, _, _, err := op.CreateAccessToken(ctx, authReq, op.AccessTokenTypeJWT, provider, web, "")
	if err != nil {
		t.Fatal(err)
	}
	form := url.Values{"grant_type": {string(oidc.GrantTypeTokenExchange)}, "subject_token": {subject},
		"subject_token_type": {string(oidc.AccessTokenType)}, "requested_token_type": {string(oidc.JWTTokenType)}, "scope": {"openid"}}
	req := httptest.NewRequest(http.MethodGet, testIssuer+"oauth/token?"+form.Encode(), nil)
	req.SetBasicAuth("web", "secret")
	rec := httptest.NewRecorder()
	provider.ServeHTTP(rec, req)
	if rec.Code == http.StatusOK {
		out := map[string]any{}
		_ = json.Unmarshal(rec.Body.Bytes(), &out)
		if out["access_token"] == nil || out["access_token"] == "" {
			t.Fatalf("VIOLATION C15 (F14): 200 with an empty token for an unissuable requested_token_type: %s", rec.Body.String())
		}
	}
}

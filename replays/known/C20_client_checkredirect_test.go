package client

// Canned replay for finding F16 (C20): CallRevokeEndpoint / CallEndSessionEndpoint overwrite
// CheckRedirect on the caller's *http.Client (by default the shared package-level client), so later
// discovery / token / userinfo calls through the same client stop following redirects.
// Run from /repo: go test -overlay <ov.json> -vet=off -run TestVerifReplayC20 ./pkg/client/

import (
	"context"
	"net/http"
	"net/http/httptest"
	"testing"
)

type verifCaller struct {
	endpoint string
	c        *http.Client
}

func (v verifCaller) GetRevokeEndpoint() string     { return v.endpoint }
func (v verifCaller) GetEndSessionEndpoint() string { return v.endpoint }
func (v verifCaller) HttpClient() *http.Client      { return v.c }

func TestVerifReplayC20CallerClientUntouched(t *testing.T) {
	srv := httptest.NewServer(http.HandlerFunc(func(w http.ResponseWriter, r *http.Request) { w.WriteHeader(200) }))
	defer srv.Close()
	hc := &http.Client{}
	caller := verifCaller{endpoint: srv.URL, c: hc}
	_ = CallRevokeEndpoint(context.Background(), struct{}{}, nil, caller)
	if hc.CheckRedirect != nil {
		t.Fatal("VIOLATION C20 (F16): CallRevokeEndpoint changed CheckRedirect of the caller's http.Client")
	}
	_, _ = CallEndSessionEndpoint(context.Background(), struct{}{}, nil, caller)
	if hc.CheckRedirect != nil {
		t.Fatal("VIOLATION C20 (F16): CallEndSessionEndpoint changed CheckRedirect of the caller's http.Client")
	}
}

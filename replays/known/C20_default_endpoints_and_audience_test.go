package op_test

// Canned replays for known findings F15 and F17 (C20).
//  F15: NewProvider stores the pointer op.DefaultEndpoints; WithCustomTokenEndpoint writes through
//       it into the package default, moving the endpoints of every provider built with defaults.
//  F17: DeviceAuthorizationState.GetAudience (a getter on storage-owned state) appends to r.Audience.
// Run from /repo: go test -overlay <ov.json> -vet=off -run TestVerifReplayC20 ./pkg/op/

import (
	"testing"

	"github.com/zitadel/oidc/v3/example/server/storage"
	"github.com/zitadel/oidc/v3/pkg/op"
)

func TestVerifReplayC20DefaultEndpointsMutated(t *testing.T) {
	before := op.DefaultEndpoints.Token.Relative()
	saved := *op.DefaultEndpoints
	defer func() { *op.DefaultEndpoints = saved }()
	st := storage.NewStorage(storage.NewUserStore(testIssuer))
	_, err := op.NewOpenIDProvider(testIssuer, testConfig, st, op.WithAllowInsecure(), op.WithCustomTokenEndpoint(op.NewEndpoint("custom/token")))
	if err != nil {
		t.Fatal(err)
	}
	if after := op.DefaultEndpoints.Token.Relative(); after != before {
		t.Fatalf("KNOWN-FINDING C20 (F15) reproduced: package default token endpoint moved from %s to %s", before, after)
	}
}

func TestVerifReplayC20GetAudienceWrites(t *testing.T) {
	s := &op.DeviceAuthorizationState{ClientID: "c"}
	_ = s.GetAudience()
	if len(s.Audience) != 0 {
		t.Fatalf("KNOWN-FINDING C20 (F17) reproduced: GetAudience wrote %v into the storage-owned state", s.Audience)
	}
}

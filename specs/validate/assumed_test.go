// Bounded validation of assumed specifications (trusted base) by execution against the real
// standard library. Evidence only: a pass here proves nothing for all inputs; a failure means a
// model in /verif/govc/{ext,json}.go or /verif/specs/*.spec misdescribes the library.
package specvalidate

import (
	"bytes"
	"encoding/base64"
	"encoding/json"
	"fmt"
	"math"
	"math/rand"
	"os"
	"reflect"
	"strconv"
	"strings"
	"testing"
	"time"
	"unicode"
)

func rng() *rand.Rand {
	seed := int64(1)
	if s := os.Getenv("VERIF_SEED"); s != "" {
		if v, err := strconv.ParseInt(s, 10, 64); err == nil {
			seed = v
		}
	}
	return rand.New(rand.NewSource(seed))
}

var cases int

func n() int {
	if os.Getenv("VERIF_TIER") == "thorough" {
		return 20000
	}
	return 2000
}

func randKey(r *rand.Rand) string {
	keys := []string{"iss", "sub", "aud", "exp", "iat", "act", "x", "y", "custom", "Iss", "email", "a b", ""}
	if r.Intn(4) == 0 {
		b := make([]byte, r.Intn(6))
		for i := range b {
			b[i] = byte('a' + r.Intn(26))
		}
		return string(b)
	}
	return keys[r.Intn(len(keys))]
}

func randVal(r *rand.Rand, depth int) any {
	switch k := r.Intn(7); {
	case k == 0:
		return nil
	case k == 1:
		return r.Intn(2) == 0
	case k == 2:
		return float64(r.Intn(1000000)) / 4
	case k == 3:
		return strings.Repeat("v", r.Intn(40)) + randKey(r)
	case k == 4 && depth < 3:
		l := r.Intn(4)
		out := make([]any, l)
		for i := range out {
			out[i] = randVal(r, depth+1)
		}
		return out
	case k == 5 && depth < 3:
		return randMap(r, depth+1, r.Intn(4))
	}
	return "s"
}

func randMap(r *rand.Rand, depth, size int) map[string]any {
	m := map[string]any{}
	for i := 0; i < size; i++ {
		m[randKey(r)] = randVal(r, depth)
	}
	return m
}

// json: decoding an object into a non-nil map[string]any keeps the map and its other entries and
// overwrites exactly the members of the document with their generic decoding; into a nil map a new
// map with exactly the document's members is made. After Encoder.Encode + Decoder.Decode on one
// bytes.Buffer at most white space is left in the buffer.
func TestJSONMapMergeAndBufferRest(t *testing.T) {
	r := rng()
	for i := 0; i < n(); i++ {
		doc := randMap(r, 0, r.Intn(6))
		if i%50 == 0 {
			// documents around the decoder's buffer sizes
			doc["pad"] = strings.Repeat("p", []int{480, 490, 495, 500, 505, 512, 1000, 1015, 1024, 4090}[r.Intn(10)]+r.Intn(8))
		}
		var generic map[string]any
		raw, err := json.Marshal(doc)
		if err != nil {
			t.Fatal(err)
		}
		if err := json.Unmarshal(raw, &generic); err != nil {
			t.Fatal(err)
		}
		custom := randMap(r, 0, r.Intn(6))
		before := map[string]any{}
		for k, v := range custom {
			before[k] = v
		}
		buf := new(bytes.Buffer)
		if err := json.NewEncoder(buf).Encode(doc); err != nil {
			t.Fatal(err)
		}
		target := custom
		if r.Intn(5) == 0 {
			target = nil
			before = map[string]any{}
		}
		same := target
		if err := json.NewDecoder(buf).Decode(&target); err != nil {
			t.Fatal(err)
		}
		if same != nil && reflect.ValueOf(same).Pointer() != reflect.ValueOf(target).Pointer() {
			t.Fatalf("non-nil map was replaced")
		}
		for k, v := range generic {
			if got, ok := target[k]; !ok || !reflect.DeepEqual(got, v) {
				t.Fatalf("member %q of the document not decoded over the map: %v vs %v", k, got, v)
			}
		}
		for k, v := range before {
			if _, inDoc := generic[k]; inDoc {
				continue
			}
			if got, ok := target[k]; !ok || !reflect.DeepEqual(got, v) {
				t.Fatalf("entry %q not kept", k)
			}
		}
		for k := range target {
			_, a := generic[k]
			_, b := before[k]
			if !a && !b {
				t.Fatalf("entry %q came from nowhere", k)
			}
		}
		for _, c := range buf.Bytes() {
			if !unicode.IsSpace(rune(c)) {
				t.Fatalf("decoder left non-space bytes in the buffer: %q", buf.Bytes())
			}
		}
		cases++
	}
}

// json.Unmarshal into an `any`: nil, bool, float64, string, []any or map[string]any; into a string
// target only JSON strings succeed.
func TestJSONGenericTypes(t *testing.T) {
	r := rng()
	for i := 0; i < n(); i++ {
		raw, _ := json.Marshal(randVal(r, 0))
		var v any
		if err := json.Unmarshal(raw, &v); err != nil {
			t.Fatal(err)
		}
		switch v.(type) {
		case nil, bool, float64, string, []any, map[string]any:
		default:
			t.Fatalf("unexpected dynamic type %T", v)
		}
		var s string
		err := json.Unmarshal(raw, &s)
		if _, isStr := v.(string); err == nil && !isStr && v != nil {
			t.Fatalf("non-string document %s decoded into a string", raw)
		}
		cases++
	}
}

func TestSplitBase64TruncRoundBytes(t *testing.T) {
	r := rng()
	for i := 0; i < n(); i++ {
		// strings.Split(s, " "): at least one part, parts joined with the separator give s back
		b := make([]byte, r.Intn(12))
		for j := range b {
			b[j] = " ab"[r.Intn(3)]
		}
		s := string(b)
		parts := strings.Split(s, " ")
		if len(parts) < 1 || len(parts) != strings.Count(s, " ")+1 || strings.Join(parts, " ") != s {
			t.Fatalf("split model broken for %q", s)
		}
		// base64: decode inverts encode, per encoding
		raw := make([]byte, r.Intn(40))
		r.Read(raw)
		for _, enc := range []*base64.Encoding{base64.RawURLEncoding, base64.URLEncoding, base64.StdEncoding, base64.RawStdEncoding} {
			d, err := enc.DecodeString(enc.EncodeToString(raw))
			if err != nil || !bytes.Equal(d, raw) {
				t.Fatalf("base64 inverse broken")
			}
		}
		// string(bytes) has as many bytes as the slice
		if len(string(raw)) != len(raw) {
			t.Fatal("len(string(b)) != len(b)")
		}
		// float64 -> int64 inside the range truncates toward zero
		f := (r.Float64() - 0.5) * math.Pow(2, float64(r.Intn(62)))
		if float64(int64(f)) != math.Trunc(f) {
			t.Fatalf("truncation model broken for %v", f)
		}
		// time.Round(d) on Unix nanoseconds: d * floor((t + d/2) / d) relative to the zero time, for the
		// durations the library uses (whole seconds)
		ns := r.Int63n(4e18)
		tt := time.Unix(0, ns)
		d := time.Second
		zero := time.Time{}.UnixNano() // overflows; use seconds instead
		_ = zero
		got := tt.Round(d).UnixNano()
		want := d.Nanoseconds() * floorDiv(ns+d.Nanoseconds()/2, d.Nanoseconds())
		if got != want {
			t.Fatalf("round model broken: %d vs %d", got, want)
		}
		cases++
	}
}

func floorDiv(a, b int64) int64 {
	q := a / b
	if (a%b != 0) && ((a < 0) != (b < 0)) {
		q--
	}
	return q
}

func TestMain(m *testing.M) {
	rc := m.Run()
	fmt.Printf("SPECVALIDATE cases=%d rc=%d\n", cases, rc)
	os.Exit(rc)
}

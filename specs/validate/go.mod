module verif/specvalidate

go 1.26.8
